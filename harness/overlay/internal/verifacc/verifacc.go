//go:build verif

// Package verifacc is the shared part of the C08 / C09 harnesses: it builds a partial state from a
// case line, credits incoming transfers through the real PVM.Psi_A, sets up the accumulate context
// pair exactly as Psi_A does, and drives the REAL host-call functions (PVM.AccumulateOmegas) with
// registers and guest memory prepared per call. All observables are rendered canonically.
//
// case grammar (one line, blank separated):
//
//	seq D <D> T <slot> S <self> M <manager> R <registrar> NX <next id> IN <a,b,..|-> A <n> acct* O <n> op*
//	acct := id bal gratis code g m created lastacc parent ST <n> (k v kvflag)* LK <n> (h z slots kvflag)* PI <n> (h blob)* [RC items octets]
//	        (RC: recorded counters given directly instead of derived from the entries: the stand-in for an account with a huge
//	         footprint, on which only calls that read the counters are run)
//	op   := new c l g m f i | upg c g m | xfer d amt l memo | ej d h | ck | wr k v | sol h z | fg h z | info s
//	thr i o f | infox bal i o f | fps klen vlen | fpl z | der acct
package verifacc

import (
	"encoding/binary"
	"fmt"
	"math/big"
	"sort"
	"strings"

	"github.com/New-JAMneration/JAM-Protocol/PVM"
	"github.com/New-JAMneration/JAM-Protocol/internal/service_account"
	"github.com/New-JAMneration/JAM-Protocol/internal/types"
	"github.com/New-JAMneration/JAM-Protocol/internal/utilities/hash"
	"github.com/New-JAMneration/JAM-Protocol/internal/utilities/merklization"
	h "github.com/New-JAMneration/JAM-Protocol/internal/verifh"
)

type StorE struct {
	K, V []byte
	KV   bool
}
type LookE struct {
	H     [32]byte
	Z     uint32
	Slots []uint32
	KV    bool
}
type PreE struct {
	H    [32]byte
	Blob []byte
}
type Acct struct {
	ID                       uint32
	Bal, Gratis              uint64
	Code                     [32]byte
	G, M                     uint64
	Created, LastAcc, Parent uint32
	Stor                     []StorE
	Look                     []LookE
	Pre                      []PreE
	HasRC                    bool // recorded counters overridden
	RCItems                  uint32
	RCOctets                 uint64
}

type Case struct {
	D, T            uint32
	Self, Mgr, Reg  uint32
	Next            uint32
	In              []uint64
	Accts           []Acct
	Ops             [][]string
}

// ---------------------------------------------------------------------------------------------
// rendering / parsing of cases

func csvU64(v []uint64) string {
	if len(v) == 0 {
		return "-"
	}
	s := make([]string, len(v))
	for i, x := range v {
		s[i] = fmt.Sprint(x)
	}
	return strings.Join(s, ",")
}
func csvU32(v []uint32) string {
	if len(v) == 0 {
		return "-"
	}
	s := make([]string, len(v))
	for i, x := range v {
		s[i] = fmt.Sprint(x)
	}
	return strings.Join(s, ",")
}
func parseCsv(s string) []uint64 {
	if s == "-" {
		return nil
	}
	var out []uint64
	for _, p := range strings.Split(s, ",") {
		out = append(out, h.U(p))
	}
	return out
}
func b2i(b bool) int {
	if b {
		return 1
	}
	return 0
}

func (a *Acct) Tokens() string {
	var sb strings.Builder
	fmt.Fprintf(&sb, "%d %d %d %s %d %d %d %d %d ST %d", a.ID, a.Bal, a.Gratis, h.Hex(a.Code[:]), a.G, a.M, a.Created, a.LastAcc, a.Parent, len(a.Stor))
	for _, s := range a.Stor {
		fmt.Fprintf(&sb, " %s %s %d", h.Hex(s.K), h.Hex(s.V), b2i(s.KV))
	}
	fmt.Fprintf(&sb, " LK %d", len(a.Look))
	for _, l := range a.Look {
		fmt.Fprintf(&sb, " %s %d %s %d", h.Hex(l.H[:]), l.Z, csvU32(l.Slots), b2i(l.KV))
	}
	fmt.Fprintf(&sb, " PI %d", len(a.Pre))
	for _, p := range a.Pre {
		fmt.Fprintf(&sb, " %s %s", h.Hex(p.H[:]), h.Hex(p.Blob))
	}
	if a.HasRC {
		fmt.Fprintf(&sb, " RC %d %d", a.RCItems, a.RCOctets)
	}
	return sb.String()
}

func (c *Case) Line() string {
	var sb strings.Builder
	fmt.Fprintf(&sb, "seq D %d T %d S %d M %d R %d NX %d IN %s A %d", c.D, c.T, c.Self, c.Mgr, c.Reg, c.Next, csvU64(c.In), len(c.Accts))
	for i := range c.Accts {
		sb.WriteString(" " + c.Accts[i].Tokens())
	}
	fmt.Fprintf(&sb, " O %d", len(c.Ops))
	for _, o := range c.Ops {
		sb.WriteString(" " + strings.Join(o, " "))
	}
	return sb.String()
}

type tokens struct {
	t []string
	p int
}

func (t *tokens) next() string {
	if t.p >= len(t.t) {
		panic("verifh: case too short")
	}
	s := t.t[t.p]
	t.p++
	return s
}
func (t *tokens) expect(s string) {
	if g := t.next(); g != s {
		panic("verifh: expected " + s + " got " + g)
	}
}
func (t *tokens) u64() uint64 { return h.U(t.next()) }
func (t *tokens) u32() uint32 { return uint32(h.U(t.next())) }
func (t *tokens) hash() (o [32]byte) {
	b := h.UnHex(t.next())
	if len(b) != 32 {
		panic("verifh: hash token not 32 bytes")
	}
	copy(o[:], b)
	return
}

func parseAcct(t *tokens) Acct {
	var a Acct
	a.ID = t.u32()
	a.Bal = t.u64()
	a.Gratis = t.u64()
	a.Code = t.hash()
	a.G = t.u64()
	a.M = t.u64()
	a.Created = t.u32()
	a.LastAcc = t.u32()
	a.Parent = t.u32()
	t.expect("ST")
	n := int(t.u64())
	for i := 0; i < n; i++ {
		k := h.UnHex(t.next())
		v := h.UnHex(t.next())
		a.Stor = append(a.Stor, StorE{K: k, V: v, KV: t.next() == "1"})
	}
	t.expect("LK")
	n = int(t.u64())
	for i := 0; i < n; i++ {
		var l LookE
		l.H = t.hash()
		l.Z = t.u32()
		for _, s := range parseCsv(t.next()) {
			l.Slots = append(l.Slots, uint32(s))
		}
		l.KV = t.next() == "1"
		a.Look = append(a.Look, l)
	}
	t.expect("PI")
	n = int(t.u64())
	for i := 0; i < n; i++ {
		var p PreE
		p.H = t.hash()
		p.Blob = h.UnHex(t.next())
		a.Pre = append(a.Pre, p)
	}
	// an account is a triple of maps: the same key twice is not a state (both sides answer BADCASE)
	seen := map[string]bool{}
	mark := func(k string) {
		if seen[k] {
			panic("verifh: BADCASE duplicate key")
		}
		seen[k] = true
	}
	for _, s := range a.Stor {
		mark("s" + string(s.K))
	}
	for _, l := range a.Look {
		mark(fmt.Sprintf("l%x/%d", l.H, l.Z))
	}
	for _, p := range a.Pre {
		mark(fmt.Sprintf("p%x", p.H))
	}
	if t.p < len(t.t) && t.t[t.p] == "RC" {
		t.p++
		a.HasRC = true
		a.RCItems = t.u32()
		a.RCOctets = t.u64()
	}
	return a
}

var opArity = map[string]int{"new": 6, "upg": 3, "xfer": 4, "ej": 2, "ck": 0, "wr": 2, "sol": 2, "fg": 2, "info": 1}

func ParseSeq(t *tokens) *Case {
	c := &Case{}
	t.expect("D")
	c.D = t.u32()
	t.expect("T")
	c.T = t.u32()
	t.expect("S")
	c.Self = t.u32()
	t.expect("M")
	c.Mgr = t.u32()
	t.expect("R")
	c.Reg = t.u32()
	t.expect("NX")
	c.Next = t.u32()
	t.expect("IN")
	c.In = parseCsv(t.next())
	t.expect("A")
	n := int(t.u64())
	ids := map[uint32]bool{}
	for i := 0; i < n; i++ {
		a := parseAcct(t)
		if ids[a.ID] {
			panic("verifh: BADCASE duplicate key")
		}
		ids[a.ID] = true
		c.Accts = append(c.Accts, a)
	}
	t.expect("O")
	n = int(t.u64())
	for i := 0; i < n; i++ {
		name := t.next()
		ar, ok := opArity[name]
		if !ok {
			panic("verifh: bad op " + name)
		}
		o := []string{name}
		for j := 0; j < ar; j++ {
			o = append(o, t.next())
		}
		c.Ops = append(c.Ops, o)
	}
	return c
}

// ---------------------------------------------------------------------------------------------
// exact footprint / threshold arithmetic of the harness itself (math/big; used to pick inputs
// and to record consistent counters in the initial state, never as an oracle)

func (a *Acct) Footprint() (items uint32, octets uint64) {
	items = uint32(2*len(a.Look) + len(a.Stor))
	for _, l := range a.Look {
		octets += 81 + uint64(l.Z)
	}
	for _, s := range a.Stor {
		octets += 34 + uint64(len(s.K)) + uint64(len(s.V))
	}
	return
}

func ExactThreshold(items uint32, octets, gratis uint64) *big.Int {
	r := big.NewInt(100)
	r.Add(r, new(big.Int).Mul(big.NewInt(10), new(big.Int).SetUint64(uint64(items))))
	r.Add(r, new(big.Int).SetUint64(octets))
	r.Sub(r, new(big.Int).SetUint64(gratis))
	if r.Sign() < 0 {
		r.SetInt64(0)
	}
	return r
}

// ---------------------------------------------------------------------------------------------
// the runner

type poolEntry struct {
	id     uint32
	stor   *StorE
	look   *LookE
	items  uint64
	octets uint64
}

type Runner struct {
	C        *Case
	Add      PVM.HostCallArgs
	Regs     PVM.Registers
	Mem      *PVM.Memory
	Gas      PVM.Gas
	pool     map[types.StateKey]poolEntry
	self     types.ServiceID
	Credited string
}

const (
	memBase  = 0x20000
	offHash  = memBase          // 32-byte code hash / preimage hash
	offMemo  = memBase + 0x100  // 128-byte memo
	offKey   = memBase + 0x1000 // storage key (<= 4096)
	offVal   = memBase + 0x2000 // storage value (<= 0x8000)
	offInfo  = memBase + 0xA000 // info output
	memPages = 12
)

func newMemory() *PVM.Memory {
	m := &PVM.Memory{Pages: map[uint32]*PVM.Page{}}
	for p := uint32(0); p < memPages; p++ {
		m.Pages[memBase/PVM.ZP+p] = &PVM.Page{Value: make([]byte, PVM.ZP), Access: PVM.MemoryReadWrite}
	}
	return m
}

// Recorded returns the counters stored in ServiceInfo: derived from the entries, or given directly.
func (a *Acct) Recorded() (uint32, uint64) {
	if a.HasRC {
		return a.RCItems, a.RCOctets
	}
	return a.Footprint()
}

func (a *Acct) build(kv *types.StateKeyVals, pool map[types.StateKey]poolEntry) types.ServiceAccount {
	items, octets := a.Recorded()
	sa := types.ServiceAccount{
		ServiceInfo: types.ServiceInfo{
			CodeHash: types.OpaqueHash(a.Code), Balance: types.U64(a.Bal), MinItemGas: types.Gas(a.G), MinMemoGas: types.Gas(a.M),
			Bytes: types.U64(octets), DepositOffset: types.U64(a.Gratis), Items: types.U32(items),
			CreationSlot: types.TimeSlot(a.Created), LastAccumulationSlot: types.TimeSlot(a.LastAcc), ParentService: types.ServiceID(a.Parent),
		},
		PreimageLookup: types.PreimagesMapEntry{},
		LookupDict:     types.LookupMetaMapEntry{},
		StorageDict:    types.Storage{},
	}
	for i := range a.Stor {
		s := &a.Stor[i]
		if s.KV {
			e := merklization.WrapEncodeDelta2KeyVal(types.ServiceID(a.ID), append([]byte{}, s.K...), append([]byte{}, s.V...))
			*kv = append(*kv, e)
			pool[e.Key] = poolEntry{id: a.ID, stor: s, items: 1, octets: 34 + uint64(len(s.K)) + uint64(len(s.V))}
		} else {
			sa.StorageDict[string(s.K)] = append(types.ByteSequence{}, s.V...)
		}
	}
	for i := range a.Look {
		l := &a.Look[i]
		key := types.LookupMetaMapkey{Hash: types.OpaqueHash(l.H), Length: types.U32(l.Z)}
		ts := make(types.TimeSlotSet, len(l.Slots))
		for j, s := range l.Slots {
			ts[j] = types.TimeSlot(s)
		}
		if l.KV {
			e := merklization.EncodeDelta4KeyVal(types.ServiceID(a.ID), key, ts)
			*kv = append(*kv, e)
			pool[e.Key] = poolEntry{id: a.ID, look: l, items: 2, octets: 81 + uint64(l.Z)}
		} else {
			sa.LookupDict[key] = ts
		}
	}
	for _, p := range a.Pre {
		sa.PreimageLookup[types.OpaqueHash(p.H)] = append(types.ByteSequence{}, p.Blob...)
	}
	return sa
}

// NewRunner builds the partial state, credits the incoming transfers through PVM.Psi_A (the service has
// no code preimage, so Psi_A returns right after the credit) and prepares the context pair as Psi_A does.
func NewRunner(c *Case) *Runner {
	types.UnreferencedPreimageTimeslots = int(c.D)
	r := &Runner{C: c, pool: map[types.StateKey]poolEntry{}, self: types.ServiceID(c.Self)}
	kv := types.StateKeyVals{}
	partial := types.PartialStateSet{
		ServiceAccounts: types.ServiceAccountState{},
		Bless:           types.ServiceID(c.Mgr),
		CreateAcct:      types.ServiceID(c.Reg),
		Assign:          make(types.ServiceIDList, types.CoresCount),
		AlwaysAccum:     types.AlwaysAccumulateMap{},
	}
	for i := range c.Accts {
		partial.ServiceAccounts[types.ServiceID(c.Accts[i].ID)] = c.Accts[i].build(&kv, r.pool)
	}
	var in []types.OperandOrDeferredTransfer
	for i, a := range c.In {
		in = append(in, types.OperandOrDeferredTransfer{DeferredTransfer: &types.DeferredTransfer{
			SenderID: types.ServiceID(7000 + i), ReceiverID: r.self, Balance: types.U64(a), GasLimit: 10}})
		if i%3 == 2 { // operands interleaved: they carry no tokens
			in = append(in, types.OperandOrDeferredTransfer{Operand: &types.Operand{GasLimit: 5}})
		}
	}
	eta := types.Entropy{1, 2, 3}
	timeslot := types.TimeSlot(c.T)
	res := PVM.Psi_A(partial, timeslot, r.self, 1000000, in, eta, kv)
	partial = res.PartialStateSet
	kv = res.StorageKeyVal
	xfers := "-"
	if len(res.DeferredTransfers) != 0 {
		xfers = fmt.Sprintf("unexpected-%d", len(res.DeferredTransfers))
	}
	r.Credited = "C " + r.acctsLine(partial.ServiceAccounts, &kv) + " " + xfers

	// as in Psi_A
	newPartial := partial.DeepCopy()
	newKV := kv.DeepCopy()
	sa := newPartial.ServiceAccounts[r.self]
	sid := r.self
	kvY := kv
	x := PVM.I(newPartial, r.self, timeslot, eta, &newKV)
	y := PVM.I(partial, r.self, timeslot, eta, &kvY)
	x.ImportServiceID = types.ServiceID(c.Next)
	y.ImportServiceID = types.ServiceID(c.Next)
	r.Add = PVM.HostCallArgs{
		GeneralArgs: PVM.GeneralArgs{ServiceAccount: &sa, ServiceID: &sid, ServiceAccountState: &newPartial.ServiceAccounts, StorageKeyVal: &newKV},
		AccumulateArgs: PVM.AccumulateArgs{ResultContextX: x, ResultContextY: y, Eta: eta, OperandOrDeferredTransfers: in, Timeslot: timeslot},
	}
	r.Mem = newMemory()
	r.Gas = PVM.Gas(1) << 60
	return r
}

func (r *Runner) put(off uint64, b []byte) { r.Mem.Write(off, b) }

// Step runs one op on the real host-call function and returns the rendered register-7 outcome.
func (r *Runner) Step(o []string) string {
	var id PVM.OperationType
	for i := range r.Regs {
		r.Regs[i] = 0xdead0000 + uint64(i)
	}
	switch o[0] {
	case "new":
		id = PVM.NewOp
		r.put(offHash, h.UnHex(o[1]))
		r.Regs[7], r.Regs[8], r.Regs[9], r.Regs[10], r.Regs[11], r.Regs[12] = offHash, h.U(o[2]), h.U(o[3]), h.U(o[4]), h.U(o[5]), h.U(o[6])
	case "upg":
		id = PVM.UpgradeOp
		r.put(offHash, h.UnHex(o[1]))
		r.Regs[7], r.Regs[8], r.Regs[9] = offHash, h.U(o[2]), h.U(o[3])
	case "xfer":
		id = PVM.TransferOp
		memo := make([]byte, 128)
		copy(memo, h.UnHex(o[4]))
		r.put(offMemo, memo)
		r.Regs[7], r.Regs[8], r.Regs[9], r.Regs[10] = h.U(o[1]), h.U(o[2]), h.U(o[3]), offMemo
	case "ej":
		id = PVM.EjectOp
		r.put(offHash, h.UnHex(o[2]))
		r.Regs[7], r.Regs[8] = h.U(o[1]), offHash
	case "ck":
		id = PVM.CheckpointOp
	case "wr":
		id = PVM.WriteOp
		k, v := h.UnHex(o[1]), h.UnHex(o[2])
		r.put(offKey, k)
		r.put(offVal, v)
		r.Regs[7], r.Regs[8], r.Regs[9], r.Regs[10] = offKey, uint64(len(k)), offVal, uint64(len(v))
	case "sol":
		id = PVM.SolicitOp
		r.put(offHash, h.UnHex(o[1]))
		r.Regs[7], r.Regs[8] = offHash, h.U(o[2])
	case "fg":
		id = PVM.ForgetOp
		r.put(offHash, h.UnHex(o[1]))
		r.Regs[7], r.Regs[8] = offHash, h.U(o[2])
	case "info":
		id = PVM.InfoOp
		r.put(offInfo, make([]byte, 128))
		r.Regs[7], r.Regs[8], r.Regs[9], r.Regs[10] = h.U(o[1]), offInfo, 0, 200
	default:
		panic("verifh: bad op " + o[0])
	}
	gasBefore := r.Gas
	out := PVM.AccumulateOmegas[id](PVM.OmegaInput{
		Operation: id,
		VM:        &PVM.VMState{Registers: &r.Regs, Memory: r.Mem, Gas: &r.Gas},
		Addition:  r.Add,
		HostCalls: PVM.AccumulateOmegas,
	})
	suffix := ""
	switch out.ExitReason {
	case PVM.ExitContinue:
		r.Add = out.Addition
	case PVM.ExitPanic:
		suffix = "!panic"
	case PVM.ExitOOG:
		suffix = "!oog"
	default:
		suffix = fmt.Sprintf("!exit%d", uint64(out.ExitReason))
	}
	r7 := r.Regs[7]
	switch {
	case o[0] == "ck":
		if r7 == uint64(gasBefore-10) {
			return "ck" + suffix
		}
		return fmt.Sprintf("ckbad:%d%s", r7, suffix)
	case o[0] == "info" && r7 == 96:
		return "info:" + DecodeInfo(r.Mem.Read(offInfo, 96)) + suffix
	}
	return fmt.Sprintf("%d%s", r7, suffix)
}

// DecodeInfo renders the 96-byte info record: code : b t g m o i f r a p
func DecodeInfo(b []byte) string {
	u64 := func(o int) uint64 { return binary.LittleEndian.Uint64(b[o:]) }
	u32 := func(o int) uint32 { return binary.LittleEndian.Uint32(b[o:]) }
	return fmt.Sprintf("%s:%d:%d:%d:%d:%d:%d:%d:%d:%d:%d", h.Hex(b[:32]), u64(32), u64(40), u64(48), u64(56), u64(64), u32(72), u64(76), u32(84), u32(88), u32(92))
}

// recomputed footprint of every account: dictionaries through the real CalcKeys / CalcOctets,
// plus the entries of that account still held as raw key-values in the pool of this context
func (r *Runner) poolFootprints(kv *types.StateKeyVals) (map[uint32]uint64, map[uint32]uint64) {
	pi, po := map[uint32]uint64{}, map[uint32]uint64{}
	if kv != nil {
		for _, e := range *kv {
			if p, ok := r.pool[e.Key]; ok {
				pi[p.id] += p.items
				po[p.id] += p.octets
			}
		}
	}
	return pi, po
}

func sortedIDs(d types.ServiceAccountState) []types.ServiceID {
	ids := make([]types.ServiceID, 0, len(d))
	for id := range d {
		ids = append(ids, id)
	}
	sort.Slice(ids, func(i, j int) bool { return ids[i] < ids[j] })
	return ids
}

func (r *Runner) acctsLine(d types.ServiceAccountState, kv *types.StateKeyVals) string {
	if len(d) == 0 {
		return "-"
	}
	pi, po := r.poolFootprints(kv)
	var parts []string
	for _, id := range sortedIDs(d) {
		a := d[id]
		der := service_account.GetServiceAccountDerivatives(a)
		parts = append(parts, fmt.Sprintf("%d:%d:%d:%d:%d:%d", id, a.ServiceInfo.Balance, a.ServiceInfo.Items, a.ServiceInfo.Bytes,
			uint64(der.Items)+pi[uint32(id)], uint64(der.Bytes)+po[uint32(id)]))
	}
	return strings.Join(parts, ",")
}

func xfersLine(ts []types.DeferredTransfer) string {
	if len(ts) == 0 {
		return "-"
	}
	var parts []string
	for _, t := range ts {
		parts = append(parts, fmt.Sprintf("%d>%d:%d:%d:%d", t.SenderID, t.ReceiverID, t.Balance, t.GasLimit, t.Memo[0]))
	}
	return strings.Join(parts, ",")
}

func (r *Runner) CtxLine(c *PVM.ResultContext) string {
	return r.acctsLine(c.PartialState.ServiceAccounts, c.StorageKeyVal) + " " + xfersLine(c.DeferredTransfers)
}

func joinOr(parts []string, sep string) string {
	if len(parts) == 0 {
		return "-"
	}
	return strings.Join(parts, sep)
}

func (r *Runner) fullAcct(id types.ServiceID, a types.ServiceAccount, kv *types.StateKeyVals) string {
	var st, lk, pi []string
	for k, v := range a.StorageDict {
		st = append(st, h.Hex([]byte(k))+"="+h.Hex(v))
	}
	for k, v := range a.LookupDict {
		sl := make([]string, len(v))
		for i, s := range v {
			sl[i] = fmt.Sprint(uint32(s))
		}
		lk = append(lk, fmt.Sprintf("%s/%d=%s", h.Hex(k.Hash[:]), k.Length, joinOr(sl, ".")))
	}
	if kv != nil {
		for _, e := range *kv {
			p, ok := r.pool[e.Key]
			if !ok || p.id != uint32(id) {
				continue
			}
			if p.stor != nil {
				st = append(st, h.Hex(p.stor.K)+"="+h.Hex(e.Value))
			} else {
				sl := make([]string, len(p.look.Slots))
				for i, s := range p.look.Slots {
					sl[i] = fmt.Sprint(s)
				}
				lk = append(lk, fmt.Sprintf("%s/%d=%s", h.Hex(p.look.H[:]), p.look.Z, joinOr(sl, ".")))
			}
		}
	}
	for k := range a.PreimageLookup {
		pi = append(pi, h.Hex(k[:]))
	}
	sort.Strings(st)
	sort.Strings(lk)
	sort.Strings(pi)
	i := a.ServiceInfo
	return fmt.Sprintf("%d{%s,%d,%d,%d,%d,%d,%d|%s|%s|%s}", id, h.Hex(i.CodeHash[:]), i.MinItemGas, i.MinMemoGas, i.DepositOffset,
		i.CreationSlot, i.LastAccumulationSlot, i.ParentService, joinOr(st, ","), joinOr(lk, ","), joinOr(pi, ","))
}

func totalOf(c *PVM.ResultContext) *big.Int {
	t := new(big.Int)
	for _, a := range c.PartialState.ServiceAccounts {
		t.Add(t, new(big.Int).SetUint64(uint64(a.ServiceInfo.Balance)))
	}
	for _, x := range c.DeferredTransfers {
		t.Add(t, new(big.Int).SetUint64(uint64(x.Balance)))
	}
	return t
}

func (r *Runner) Final() string {
	x, y := &r.Add.ResultContextX, &r.Add.ResultContextY
	var parts []string
	for _, id := range sortedIDs(x.PartialState.ServiceAccounts) {
		parts = append(parts, r.fullAcct(id, x.PartialState.ServiceAccounts[id], x.StorageKeyVal))
	}
	return fmt.Sprintf("F %s nx=%d tot=%s Y %s ytot=%s", joinOr(parts, " "), x.ImportServiceID, totalOf(x).String(), r.CtxLine(y), totalOf(y).String())
}

// RunSeq executes a whole sequence case.
func RunSeq(c *Case) string {
	r := NewRunner(c)
	var sb strings.Builder
	sb.WriteString(r.Credited)
	for _, o := range c.Ops {
		sb.WriteString(" ; " + r.Step(o) + " " + r.CtxLine(&r.Add.ResultContextX))
	}
	sb.WriteString(" ; " + r.Final())
	return sb.String()
}

// Run dispatches one case line.
func Run(input string) (out string) {
	defer func() {
		if r := recover(); r != nil {
			if msg, ok := r.(string); ok && strings.Contains(msg, "BADCASE") {
				out = "BADCASE"
				return
			}
			panic(r)
		}
	}()
	f := strings.Fields(input)
	t := &tokens{t: f}
	switch t.next() {
	case "seq":
		return RunSeq(ParseSeq(t))
	case "thr":
		i, o, g := t.u32(), t.u64(), t.u64()
		return fmt.Sprint(uint64(service_account.CalcThresholdBalance(types.U32(i), types.U64(o), types.U64(g))))
	case "infox":
		// info on an account whose recorded counters are given directly (threshold arithmetic through the host call)
		bal, i, o, g := t.u64(), t.u32(), t.u64(), t.u64()
		a := Acct{ID: 300, Bal: bal, Gratis: g}
		c := &Case{D: 32, T: 100, Self: 300, Mgr: 1, Reg: 2, Next: 70000, Accts: []Acct{a}}
		r := NewRunner(c)
		sa := r.Add.ResultContextX.PartialState.ServiceAccounts[300]
		sa.ServiceInfo.Items, sa.ServiceInfo.Bytes = types.U32(i), types.U64(o)
		r.Add.ResultContextX.PartialState.ServiceAccounts[300] = sa
		*r.Add.GeneralArgs.ServiceAccount = sa
		out := r.Step([]string{"info", "18446744073709551615"})
		p := strings.Split(out, ":")
		if len(p) != 12 {
			return "bad " + out
		}
		return strings.Join([]string{p[2], p[3], p[6], p[7], p[8]}, " ")
	case "fps":
		kl, vl := int(t.u64()), int(t.u64())
		i, o := service_account.CalcStorageItemfootprint(string(make([]byte, kl)), make([]byte, vl))
		return fmt.Sprintf("%d %d", i, o)
	case "fpl":
		i, o := service_account.CalcLookupItemfootprint(types.LookupMetaMapkey{Length: types.U32(t.u32())})
		return fmt.Sprintf("%d %d", i, o)
	case "der":
		a := parseAcct(t)
		for i := range a.Stor {
			a.Stor[i].KV = false
		}
		for i := range a.Look {
			a.Look[i].KV = false
		}
		kv := types.StateKeyVals{}
		d := service_account.GetServiceAccountDerivatives(a.build(&kv, map[types.StateKey]poolEntry{}))
		return fmt.Sprintf("%d %d %d", d.Items, d.Bytes, d.Minbalance)
	}
	return "BADCASE"
}

// Blake2b is exposed for the generators (valid preimage / lookup pairs).
func Blake2b(b []byte) [32]byte { return [32]byte(hash.Blake2bHash(b)) }
