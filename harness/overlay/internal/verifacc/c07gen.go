//go:build verif

package verifacc

import (
	"fmt"

	"github.com/New-JAMneration/JAM-Protocol/PVM"
	h "github.com/New-JAMneration/JAM-Protocol/internal/verifh"
)

// Generator of C07 cases: one host call per case; registers biased to the boundaries of the mapped ranges,
// to existing / absent service identifiers and to the thresholds of the balance tests; memory maps mixing
// read-write, read-only, absent and present-but-inaccessible pages around every range.

type c07Gen struct {
	rng   *h.Rng
	c     *C07Case
	st    h.Stats
	base  uint32
	prov  map[uint32][]byte // service -> a blob it has solicited (lookup record [])
	other []uint32
}

const c07Pages = 6

func (g *c07Gen) layout() {
	rng := g.rng
	switch rng.Intn(8) {
	case 0:
		g.base = 16
	case 1:
		g.base = 1<<20 - c07Pages // the last pages below 2^32
	case 2:
		g.base = 1<<20 - c07Pages - 1
	case 3:
		g.base = uint32(16 + rng.Intn(2000))
	default:
		g.base = uint32(16 + rng.U64()%(1<<20-64))
	}
	allRW := rng.Chance(2, 5)
	for i := uint32(0); i < c07Pages; i++ {
		acc := 2
		if !allRW {
			switch r := rng.Intn(10); {
			case r < 5:
				acc = 2
			case r < 7:
				acc = 1
			case r < 9:
				acc = 0
			default:
				acc = 3
			}
		}
		g.c.Pages = append(g.c.Pages, C07Page{Idx: g.base + i, Acc: acc, Fill: byte(rng.U64())})
	}
}

// ptr picks the start of a range of n bytes
func (g *c07Gen) ptr(n uint64) uint64 {
	rng := g.rng
	switch rng.Intn(24) {
	case 0:
		return pick64(rng, 0, uint64(rng.Intn(65536)), 4095, 4096)
	case 1:
		return pick64(rng, 1<<32, 1<<32+uint64(g.base)*PVM.ZP, ^uint64(0), ^uint64(0)-n, 1<<63, 1<<32-1)
	case 2:
		if n <= 1<<32 {
			return pick64(rng, 1<<32-n, 1<<32-n+1, 1<<32-n-uint64(rng.Intn(3)))
		}
		return 1 << 32
	}
	i := uint64(rng.Intn(c07Pages))
	start := (uint64(g.base) + i) * PVM.ZP
	if n == 0 || n > PVM.ZP {
		return start + uint64(rng.Intn(PVM.ZP))
	}
	switch rng.Intn(6) {
	case 0:
		return start + PVM.ZP - n // ends exactly at the page end
	case 1:
		return start + PVM.ZP - n + 1 + uint64(rng.Intn(int(n))) // crosses into the next page
	case 2:
		return start + PVM.ZP - 1
	case 3:
		return start
	}
	return start + uint64(rng.Intn(int(PVM.ZP-n+1)))
}

func (g *c07Gen) place(addr uint64, data []byte) {
	if len(data) > 0 {
		g.c.Blobs = append(g.c.Blobs, C07Blob{Addr: addr, Data: append([]byte{}, data...)})
	}
}

func (g *c07Gen) noise(i int) uint64 {
	rng := g.rng
	switch rng.Intn(5) {
	case 0:
		return rng.U64()
	case 1:
		return uint64(rng.Intn(100))
	case 2:
		return boundary64(rng)
	}
	return 0xdead0000 + uint64(i)
}

// someID: an identifier register: mostly an existing service, sometimes absent, sometimes the same plus a multiple of 2^32
func (g *c07Gen) someID() uint64 {
	rng := g.rng
	c := g.c
	switch rng.Intn(12) {
	case 0:
		return rng.U64() >> 32
	case 1:
		return uint64(c.Self)
	case 2:
		return ^uint64(0)
	case 3:
		return uint64(c.Accts[rng.Intn(len(c.Accts))].ID) + (1+uint64(rng.Intn(3)))<<32
	case 4:
		return pick64(rng, 1<<32, 1<<32-1, rng.U64(), uint64(c.Self)+1<<32, ^uint64(0)-1)
	}
	return uint64(c.Accts[rng.Intn(len(c.Accts))].ID)
}

func (g *c07Gen) acct(id uint32) *Acct {
	for i := range g.c.Accts {
		if g.c.Accts[i].ID == id {
			return &g.c.Accts[i]
		}
	}
	return nil
}

func (g *c07Gen) genState() {
	rng := g.rng
	c := g.c
	c.D = uint32(pick64(rng, 32, 32, 32, 0, 5, 19200))
	c.T = uint32(pick64(rng, uint64(rng.Intn(100)), uint64(rng.Intn(3000)), uint64(c.D)+uint64(rng.Intn(10)), uint64(c.D)+100+uint64(rng.Intn(1000)), uint64(c.D)+100+uint64(rng.Intn(1000)), uint64(rng.U64()>>34)))
	c.Self = uint32(pick64(rng, uint64(rng.Intn(300)), minSvc+uint64(rng.Intn(1000)), rng.U64()>>32))
	used := map[uint32]bool{c.Self: true}
	other := func() uint32 {
		for {
			v := uint32(pick64(rng, uint64(rng.Intn(300)), minSvc+uint64(rng.Intn(1000)), rng.U64()>>32))
			if !used[v] {
				return v
			}
		}
	}
	g.prov = map[uint32][]byte{}
	// a preimage that is available now (one slot in the past), so that lookup / historical_lookup find values
	addAvailable := func(a *Acct) {
		if rng.Chance(3, 5) {
			blob := rng.Bytes(1 + rng.Intn(40))
			hh := Blake2b(blob)
			a.Look = append(a.Look, LookE{H: hh, Z: uint32(len(blob)), Slots: []uint32{uint32(rng.Intn(int(c.T) + 1))}})
			a.Pre = append(a.Pre, PreE{H: hh, Blob: blob})
		}
	}
	addSolicited := func(a *Acct) {
		if rng.Chance(1, 2) {
			blob := rng.Bytes(1 + rng.Intn(24))
			a.Look = append(a.Look, LookE{H: Blake2b(blob), Z: uint32(len(blob))})
			g.prov[a.ID] = blob
		}
	}
	self := Acct{ID: c.Self, Code: randHash(rng), G: uint64(rng.Intn(50)), M: uint64(rng.Intn(50)), Created: uint32(rng.Intn(100)), LastAcc: uint32(rng.Intn(100)), Parent: uint32(rng.Intn(1000))}
	genStorage(rng, &self, true)
	genLookups(rng, &self, c.T, c.D, true)
	addAvailable(&self)
	addSolicited(&self)
	genGratis(rng, &self)
	c.Accts = append(c.Accts, self)
	for i := 1 + rng.Intn(4); i > 0; i-- {
		id := other()
		used[id] = true
		a := Acct{ID: id, Code: randHash(rng), G: uint64(rng.Intn(50)), M: pick64(rng, 0, 0, uint64(rng.Intn(50)), 1000), Created: uint32(rng.Intn(100)), Parent: c.Self}
		if rng.Chance(2, 5) { // ejectable child
			a.Code = e32(c.Self)
			l := LookE{H: randHash(rng), Z: uint32(rng.Intn(300)), Slots: genSlots(rng, 2, c.T, c.D)}
			if rng.Chance(1, 8) {
				l.Slots = genSlots(rng, rng.Intn(4), c.T, c.D)
			}
			a.Look = []LookE{l}
			if rng.Chance(1, 8) {
				genStorage(rng, &a, false)
			}
		} else {
			genStorage(rng, &a, false)
			genLookups(rng, &a, c.T, c.D, false)
			addAvailable(&a)
			addSolicited(&a)
			genGratis(rng, &a)
		}
		c.Accts = append(c.Accts, a)
		g.other = append(g.other, id)
	}
	for {
		c.Next = uint32(pick64(rng, minSvc+uint64(rng.Intn(2000)), minSvc+(rng.U64()%((1<<32)-minSvc-256))))
		if !used[c.Next] {
			break
		}
	}
	if rng.Chance(1, 4) {
		cand := minSvc + (c.Next-minSvc+42)%((1<<32)-minSvc-256)
		for j := uint32(0); j < uint32(1+rng.Intn(2)); j++ {
			id := cand + j
			if !used[id] && id != c.Next {
				used[id] = true
				c.Accts = append(c.Accts, Acct{ID: id, Code: randHash(rng), Parent: 1})
			}
		}
	}
	// dictionaries have unique keys
	for i := range c.Accts {
		a := &c.Accts[i]
		seenL := map[string]bool{}
		var look []LookE
		for _, l := range a.Look {
			k := fmt.Sprintf("%x/%d", l.H, l.Z)
			if !seenL[k] {
				seenL[k] = true
				look = append(look, l)
			}
		}
		a.Look = look
		seenP := map[[32]byte]bool{}
		var pre []PreE
		for _, p := range a.Pre {
			if !seenP[p.H] {
				seenP[p.H] = true
				pre = append(pre, p)
			}
		}
		a.Pre = pre
	}
	// balances: every account holds its threshold plus some slack (the caller must: Gray Paper invariant a_b >= a_t)
	for i := range c.Accts {
		a := &c.Accts[i]
		thr := a.exactThr()
		if !thr.IsUint64() || thr.Uint64() > 1<<40 {
			a.Look, a.Stor, a.Pre, a.Gratis = nil, nil, nil, 0
			delete(g.prov, a.ID)
			thr = a.exactThr()
		}
		slack := pick64(rng, 0, 1, uint64(rng.Intn(400)), uint64(rng.Intn(400)), uint64(rng.Intn(100000)), boundary64(rng)>>4, boundary64(rng)>>4)
		a.Bal = thr.Uint64() + slack
	}
	// privileges
	priv := func(p int) uint32 {
		if rng.Chance(1, p) {
			return c.Self
		}
		return uint32(pick64(rng, uint64(rng.Intn(300)), uint64(c.Accts[rng.Intn(len(c.Accts))].ID), rng.U64()>>32))
	}
	c.Mgr, c.Desig, c.Reg = priv(3), priv(2), priv(3)
	for i := 0; i < C07Cores; i++ {
		c.Assigners = append(c.Assigners, priv(2))
		c.AQ = append(c.AQ, byte(rng.U64()))
	}
	for i := rng.Intn(3); i > 0; i-- {
		c.Always = append(c.Always, C07Always{ID: uint32(rng.Intn(1000)) + uint32(i)*1000, Gas: uint64(rng.Intn(100000))})
	}
	c.VK = byte(rng.U64())
	if rng.Chance(1, 2) {
		c.Yield = rng.Bytes(32)
	}
	for i := rng.Intn(3); i > 0; i-- {
		id := c.Accts[rng.Intn(len(c.Accts))].ID
		blob := rng.Bytes(1 + rng.Intn(12))
		if b, ok := g.prov[id]; ok && rng.Chance(1, 2) {
			blob = b
		}
		dup := false
		for _, p := range c.Prov {
			if p.ID == id && string(p.Blob) == string(blob) {
				dup = true
			}
		}
		if !dup {
			c.Prov = append(c.Prov, C07Prov{ID: id, Blob: blob})
		}
	}
	for i := rng.Intn(3); i > 0; i-- {
		c.Xfers = append(c.Xfers, C07Xfer{From: c.Self, To: uint32(rng.Intn(1000)), Amt: uint64(rng.Intn(1000)), Gas: uint64(rng.Intn(100)), Memo: rng.Bytes(rng.Intn(5))})
	}
	// the exceptional context differs from the regular one in a few components
	c.YBal, c.YMgr, c.YNext, c.YYield, c.YKeep = c.Accts[0].Bal, c.Mgr, c.Next, c.Yield, true
	if rng.Chance(1, 2) {
		c.YBal = c.Accts[0].Bal + uint64(rng.Intn(1000))
		c.YMgr = priv(2)
		if rng.Chance(1, 2) {
			c.YNext = c.Next + 1
		}
		if rng.Chance(1, 2) {
			c.YYield = rng.Bytes(32)
		} else if rng.Chance(1, 2) {
			c.YYield = nil
		}
		c.YKeep = rng.Bool()
	}
	c.Off = pick64(rng, 0, uint64(rng.Intn(10)), 3072, 3071, 3070, 3069, 3073, uint64(rng.Intn(4000)))
	c.Ex = rng.Intn(4)
}

func (g *c07Gen) free() uint64 {
	a := &g.c.Accts[0]
	thr := a.exactThr()
	if thr.IsUint64() && thr.Uint64() <= a.Bal {
		return a.Bal - thr.Uint64()
	}
	return 0
}

// window registers for a value of length n: offset f and length l
func (g *c07Gen) window(n uint64) (uint64, uint64) {
	rng := g.rng
	f := pick64(rng, 0, 0, 0, uint64(rng.Intn(int(n)+2)), n, n+1, n-min64(n, 1), boundary64(rng))
	rest := n - min64(f, n)
	l := pick64(rng, rest, rest, n, n+5, uint64(rng.Intn(int(rest)+2)), 0, 1, 1<<32, ^uint64(0), rest-min64(rest, 1))
	return f, l
}

func (g *c07Gen) hashFor(a *Acct, what string) [32]byte {
	rng := g.rng
	if a != nil && !rng.Chance(1, 6) {
		switch what {
		case "pre":
			if len(a.Pre) > 0 {
				return a.Pre[rng.Intn(len(a.Pre))].H
			}
		case "look":
			if len(a.Look) > 0 {
				return a.Look[rng.Intn(len(a.Look))].H
			}
		}
	}
	return randHash(rng)
}

func (g *c07Gen) acctOfReg(w uint64) *Acct {
	if w == ^uint64(0) {
		return &g.c.Accts[0]
	}
	if w < 1<<32 {
		return g.acct(uint32(w))
	}
	return nil
}

var c07AccCalls = []struct {
	id uint64
	w  int
}{{0, 2}, {1, 6}, {2, 8}, {3, 8}, {4, 10}, {5, 6}, {100, 2}, {14, 8}, {15, 8}, {16, 5}, {17, 2}, {18, 12}, {19, 3}, {20, 12},
	{21, 8}, {22, 6}, {23, 8}, {24, 8}, {25, 3}, {26, 9}}

func (g *c07Gen) gas() int64 {
	rng := g.rng
	switch rng.Intn(12) {
	case 0:
		return int64(rng.Intn(25))
	case 1:
		return int64(pick64(rng, 9, 10, 11, 0, 19, 20, 21))
	case 2:
		return 1 << 62
	}
	return int64(1<<20 + rng.Intn(1<<20))
}

// fillCall sets the registers (and places the input blobs) of one call of the accumulate table
func (g *c07Gen) fillCall(id uint64) {
	rng := g.rng
	c := g.c
	r := &c.Regs
	self := &c.Accts[0]
	switch id {
	case 1: // fetch
		r[10] = pick64(rng, 0, 1, 14, 15, 15, uint64(rng.Intn(18)), rng.U64())
		r[11] = pick64(rng, 0, 1, 2, uint64(rng.Intn(4)), rng.U64())
		r[12] = uint64(rng.Intn(3))
	case 2: // lookup
		r[7] = g.someID()
		a := g.acctOfReg(r[7])
		hh := g.hashFor(a, "pre")
		r[8] = g.ptr(32)
		g.place(r[8], hh[:])
		n := uint64(0)
		if a != nil {
			for _, p := range a.Pre {
				if p.H == hh {
					n = uint64(len(p.Blob))
				}
			}
		}
		r[10], r[11] = g.window(n)
		r[9] = g.ptr(min64(r[11], n))
	case 3: // read
		r[7] = g.someID()
		a := g.acctOfReg(r[7])
		var k, v []byte
		if a != nil && len(a.Stor) > 0 && !rng.Chance(1, 6) {
			s := a.Stor[rng.Intn(len(a.Stor))]
			k, v = s.K, s.V
		} else {
			k = rng.Bytes(rng.Intn(8))
		}
		r[8] = g.ptr(uint64(len(k)))
		r[9] = uint64(len(k))
		if rng.Chance(1, 20) {
			r[9] = pick64(rng, 1<<32, 1<<32+1, ^uint64(0), 5000, 30000)
		}
		g.place(r[8], k)
		n := uint64(len(v))
		r[11], r[12] = g.window(n)
		r[10] = g.ptr(min64(r[12], n))
	case 4: // write
		var k []byte
		if len(self.Stor) > 0 && rng.Chance(3, 5) {
			k = self.Stor[rng.Intn(len(self.Stor))].K
		} else {
			k = rng.Bytes(1 + rng.Intn(10))
		}
		r[7] = g.ptr(uint64(len(k)))
		r[8] = uint64(len(k))
		g.place(r[7], k)
		vl := uint64(rng.Intn(60))
		free := g.free()
		if rng.Chance(1, 2) {
			need := uint64(10 + 34 + len(k))
			if free >= need && free-need < 3*PVM.ZP {
				vl = around(rng, free-need)
			} else if free < need {
				vl = 1 + uint64(rng.Intn(3))
			}
		}
		if rng.Chance(1, 5) {
			vl = 0
		}
		if vl > 4*PVM.ZP {
			vl = 4 * PVM.ZP
		}
		r[10] = vl
		r[9] = g.ptr(vl)
		if vl <= 64 {
			g.place(r[9], rng.Bytes(int(vl)))
		}
		if rng.Chance(1, 25) {
			r[10] = pick64(rng, 1<<32, ^uint64(0), 1<<32-1)
		}
	case 5: // info
		r[7] = g.someID()
		r[9], r[10] = g.window(96)
		r[8] = g.ptr(min64(r[10], 96))
	case 14: // bless
		id32 := func() uint64 {
			if rng.Chance(1, 8) {
				return pick64(rng, 1<<32, 1<<32+5, ^uint64(0), rng.U64())
			}
			return pick64(rng, uint64(rng.Intn(1000)), rng.U64()>>32, 1<<32-1, uint64(c.Self))
		}
		r[7], r[9], r[10] = id32(), id32(), id32()
		r[8] = g.ptr(4 * C07Cores)
		g.place(r[8], rng.Bytes(4*C07Cores))
		n := pick64(rng, 0, 1, 2, 3, 3, uint64(rng.Intn(6)))
		r[11] = g.ptr(12 * n)
		data := rng.Bytes(int(12 * n))
		if n >= 2 && rng.Chance(1, 3) { // a repeated service identifier
			copy(data[12:16], data[0:4])
		}
		g.place(r[11], data)
		r[12] = n
		if rng.Chance(1, 15) {
			r[12] = pick64(rng, 1<<32, ^uint64(0), (1<<64-1)/12+1, (1<<64-1)/12+2, 1<<30, 400)
		}
	case 15: // assign
		r[7] = pick64(rng, 0, 1, 0, 1, 2, 3, rng.U64(), 1<<32)
		r[8] = g.ptr(32 * C07Queue)
		r[9] = pick64(rng, uint64(rng.Intn(1000)), rng.U64()>>32, 1<<32-1, 1<<32, rng.U64(), uint64(c.Self))
	case 16: // designate
		r[7] = g.ptr(336 * C07Validators)
	case 18: // new
		r[7] = g.ptr(32)
		g.place(r[7], rng.Bytes(32))
		free := g.free()
		var l uint64
		switch rng.Intn(6) {
		case 0, 1, 2:
			l = around(rng, free-min64(free, 201))
		case 3:
			l = uint64(rng.Intn(300))
		case 4:
			l = pick64(rng, 0, 1<<32-1, 1<<32-2, around(rng, 1<<31))
		case 5:
			l = around(rng, self.Bal)
		}
		if l >= 1<<32 && !rng.Chance(1, 10) {
			l = 1<<32 - 1 - uint64(rng.Intn(3))
		}
		r[8] = l
		r[9], r[10] = pick64(rng, uint64(rng.Intn(100)), rng.U64()), pick64(rng, 0, uint64(rng.Intn(100)), rng.U64())
		r[11] = 0
		if rng.Chance(1, 3) {
			r[11] = pick64(rng, 1, uint64(rng.Intn(300)), 201+l, 200+l, boundary64(rng))
		}
		r[12] = uint64(rng.Intn(minSvc))
		if rng.Chance(1, 3) {
			r[12] = g.someID()
		}
		if rng.Chance(1, 4) {
			r[12] = minSvc + uint64(rng.Intn(100))
		}
	case 19: // upgrade
		r[7] = g.ptr(32)
		g.place(r[7], rng.Bytes(32))
		r[8], r[9] = pick64(rng, uint64(rng.Intn(1000)), rng.U64()), pick64(rng, uint64(rng.Intn(1000)), rng.U64())
	case 20: // transfer
		r[7] = g.someID()
		free := g.free()
		switch rng.Intn(8) {
		case 0, 1, 2:
			r[8] = around(rng, free)
		case 3:
			r[8] = around(rng, self.Bal)
		case 4:
			r[8] = boundary64(rng)
		case 5:
			r[8] = uint64(rng.Intn(1000))
		case 6:
			r[8] = free / uint64(2+rng.Intn(5))
		case 7:
			r[8] = pick64(rng, 0, ^uint64(0), ^uint64(0)-self.Bal, (^uint64(0)-self.Bal)+1+uint64(rng.Intn(3)))
		}
		r[9] = uint64(rng.Intn(60))
		if d := g.acctOfReg(r[7]); d != nil && rng.Chance(1, 3) {
			r[9] = around(rng, d.M)
		}
		if rng.Chance(1, 4) && c.Gas >= 10 {
			r[9] = around(rng, uint64(c.Gas-10))
		}
		if rng.Chance(1, 12) {
			r[9] = pick64(rng, 1<<40, ^uint64(0), 1<<63, 1<<63-1)
		}
		r[10] = g.ptr(128)
		g.place(r[10], rng.Bytes(rng.Intn(6)))
	case 21: // eject
		r[7] = g.someID()
		if len(g.other) > 0 && rng.Chance(2, 3) {
			r[7] = uint64(g.other[rng.Intn(len(g.other))])
		}
		hh := g.hashFor(g.acctOfReg(r[7]), "look")
		r[8] = g.ptr(32)
		g.place(r[8], hh[:])
	case 22, 23, 24: // query, solicit, forget
		var hh [32]byte
		var z uint64
		if len(self.Look) > 0 && (id != 23 && rng.Chance(9, 10) || id == 23 && rng.Chance(2, 5)) {
			lk := self.Look[rng.Intn(len(self.Look))]
			hh, z = lk.H, uint64(lk.Z)
			if rng.Chance(1, 10) && z+1 < 1<<32 {
				z++
			}
			if id != 23 && rng.Chance(1, 12) { // the same length plus a multiple of 2^32: no such key
				z += (1 + uint64(rng.Intn(3))) << 32
			}
		} else {
			hh = randHash(rng)
			free := g.free()
			switch rng.Intn(4) {
			case 0, 1:
				z = around(rng, free-min64(free, 101))
			case 2:
				z = uint64(rng.Intn(500))
			case 3:
				z = boundary64(rng)
			}
			if z >= 1<<32 && id == 23 {
				z = 1<<32 - 1 - uint64(rng.Intn(3)) // solicit of a length >= 2^32 is outside the Gray Paper's types
			}
		}
		r[7] = g.ptr(32)
		g.place(r[7], hh[:])
		r[8] = z
	case 25: // yield
		r[7] = g.ptr(32)
		g.place(r[7], rng.Bytes(32))
	case 26: // provide
		r[7] = g.someID()
		var blob []byte
		if a := g.acctOfReg(r[7]); a != nil {
			if b, ok := g.prov[a.ID]; ok && !rng.Chance(1, 6) {
				blob = b
			} else if len(a.Pre) > 0 && rng.Chance(1, 2) {
				blob = a.Pre[rng.Intn(len(a.Pre))].Blob
			}
		}
		if blob == nil {
			blob = rng.Bytes(rng.Intn(20))
		}
		r[9] = uint64(len(blob))
		r[8] = g.ptr(r[9])
		g.place(r[8], blob)
		if rng.Chance(1, 20) {
			r[9] = pick64(rng, r[9]+1, 1<<32, ^uint64(0), 5000)
		}
	case 6: // historical_lookup
		r[7] = g.someID()
		a := g.acctOfReg(r[7])
		hh := g.hashFor(a, "pre")
		r[8] = g.ptr(32)
		g.place(r[8], hh[:])
		n := uint64(0)
		if a != nil {
			for _, p := range a.Pre {
				if p.H == hh {
					n = uint64(len(p.Blob))
				}
			}
		}
		r[10], r[11] = g.window(n)
		r[9] = g.ptr(min64(r[11], n))
	case 7: // export
		z := pick64(rng, 0, 1, uint64(rng.Intn(200)), 4104, 4103, 4105, 5000, uint64(rng.Intn(4104)), 1<<32, ^uint64(0))
		r[8] = z
		r[7] = g.ptr(min64(z, 4104))
	}
}

// oracles, computed by running the implementation's selection code on the state of the case
func (g *c07Gen) oracles() *c07Machine {
	c := g.c
	m := newC07Machine(c)
	c.Fetch, c.FetchSome = m.fetchOracle()
	if !c.FetchSome {
		c.Fetch = nil
	}
	if c.Kind == "ref" || c.Kind == "dref" {
		c.Hist = m.histOracle()
	}
	return m
}

// stat runs the finished case once on the implementation to record which outcome it reaches
func (g *c07Gen) stat(label string) {
	m := newC07Machine(g.c)
	out := h.Guard(func() string { exit, _ := m.exec(); return m.outcome(exit) })
	g.st.Inc(label + "-" + out)
}

func (g *c07Gen) finishFetch(id uint64) {
	// fetch's destination and window depend on the selected blob
	if id != 1 {
		return
	}
	g.oracles()
	n := uint64(len(g.c.Fetch))
	r := &g.c.Regs
	r[8], r[9] = g.window(n)
	if !g.c.FetchSome {
		r[9] = pick64(g.rng, 0, 1, 50, ^uint64(0))
	}
	r[7] = g.ptr(min64(r[9], n-min64(r[8], n)))
}

func newC07Gen(rng *h.Rng, st h.Stats, kind string) *c07Gen {
	g := &c07Gen{rng: rng, st: st, c: &C07Case{Kind: kind}}
	g.layout()
	g.genState()
	g.c.Gas = g.gas()
	for i := range g.c.Regs {
		g.c.Regs[i] = g.noise(i)
	}
	return g
}

func pickCall(rng *h.Rng) uint64 {
	total := 0
	for _, k := range c07AccCalls {
		total += k.w
	}
	w := rng.Intn(total)
	for _, k := range c07AccCalls {
		if w < k.w {
			return k.id
		}
		w -= k.w
	}
	return 0
}

// the identifier classes of the property: defined, undefined small, > 255, sign-extended
func unknownID(rng *h.Rng) uint64 {
	switch rng.Intn(6) {
	case 0:
		return 27 + uint64(rng.Intn(73)) // 27..99
	case 1:
		return 101 + uint64(rng.Intn(155)) // 101..255
	case 2:
		return 256 + uint64(rng.Intn(30)) // aliases of the defined calls modulo 256
	case 3:
		return pick64(rng, 256+100, 512+18, 1<<16, 1<<31-1, 1<<31, 1<<32, 1<<32+4, 1<<63-1, uint64(rng.Intn(1<<30)))
	case 4:
		return ^uint64(0) - uint64(rng.Intn(300)) // sign-extended negative immediates
	}
	return pick64(rng, 1<<63, 1<<63+20, 0xffffffff80000000, 0xffffffff80000012, ^uint64(0), rng.U64())
}

// immediates of ecalli for the dispatch stream (1..4 bytes, little endian, sign-extended by the machine)
func dispImm(rng *h.Rng, defined []uint64) []byte {
	switch rng.Intn(8) {
	case 0, 1: // a defined call, one byte
		return []byte{byte(defined[rng.Intn(len(defined))])}
	case 2: // a defined call written with more bytes
		v := defined[rng.Intn(len(defined))]
		return []byte{byte(v), 0, 0}[:2+rng.Intn(2)]
	case 3: // undefined small
		v := 27 + rng.Intn(73)
		return []byte{byte(v)}
	case 4: // 128..255 needs two bytes
		v := 128 + rng.Intn(128)
		return []byte{byte(v), 0}
	case 5: // > 255: aliases of defined calls modulo 256, and others
		v := uint32(pick64(rng, 256, 256+18, 256+20, 512+4, 256+100, 300, 1<<16, 1<<24+17, 1<<31-1, uint64(rng.Intn(1<<30))))
		b := []byte{byte(v), byte(v >> 8), byte(v >> 16), byte(v >> 24)}
		if v < 1<<15 {
			return b[:2]
		}
		if v < 1<<23 {
			return b[:3]
		}
		return b
	case 6: // sign-extended: the top bit of the last byte is set
		switch rng.Intn(3) {
		case 0:
			return []byte{byte(0x80 + rng.Intn(128))}
		case 1:
			return []byte{byte(rng.U64()), byte(0x80 + rng.Intn(128))}
		}
		return []byte{byte(rng.U64()), byte(rng.U64()), byte(rng.U64()), byte(0x80 + rng.Intn(128))}
	}
	return []byte{byte(rng.U64()), byte(rng.U64()), byte(rng.U64()), byte(rng.U64())}[:1+rng.Intn(4)]
}

func GenC07(rng *h.Rng, tier string, emit func(string)) {
	st := h.Stats{}
	scale := 1
	if tier == "thorough" {
		scale = 10
	}
	// (1) every call of the accumulate table, direct
	for i := 0; i < 8000*scale; i++ {
		g := newC07Gen(rng.Fork(), st, "acc")
		id := pickCall(g.rng)
		g.c.ID = fmt.Sprint(id)
		g.fillCall(id)
		g.oracles()
		g.finishFetch(id)
		emit(g.c.Line())
		st.Inc(fmt.Sprintf("acc-call-%d", id))
		g.stat(fmt.Sprintf("acc-call-%d", id))
	}
	// (2) the refine table: gas, fetch, historical_lookup, export, log
	refCalls := []uint64{0, 1, 6, 6, 6, 7, 7, 7, 100}
	for i := 0; i < 2000*scale; i++ {
		g := newC07Gen(rng.Fork(), st, "ref")
		id := refCalls[g.rng.Intn(len(refCalls))]
		g.c.ID = fmt.Sprint(id)
		g.fillCall(id)
		g.oracles()
		g.finishFetch(id)
		emit(g.c.Line())
		st.Inc(fmt.Sprintf("ref-call-%d", id))
		g.stat(fmt.Sprintf("ref-call-%d", id))
	}
	// (3) identifiers without an entry, direct through the table lookup of each invocation kind
	for i := 0; i < 1200*scale; i++ {
		kind := []string{"acc", "ref", "auth"}[i%3]
		g := newC07Gen(rng.Fork(), st, kind)
		id := unknownID(g.rng)
		switch {
		case kind == "acc" && g.rng.Chance(1, 4):
			id = 6 + uint64(g.rng.Intn(8)) // refine calls are not in the accumulate table
		case kind == "ref" && g.rng.Chance(1, 4):
			id = 14 + uint64(g.rng.Intn(13)) // accumulate calls are not in the refine table
		case kind == "auth" && g.rng.Chance(1, 3):
			id = 2 + uint64(g.rng.Intn(25))
		}
		g.c.ID = fmt.Sprint(id)
		g.oracles()
		emit(g.c.Line())
		st.Inc("unknown-direct-" + kind)
		g.stat("unknown-direct-" + kind)
	}
	// (4) through Host.HostCall: "ecalli imm; trap" for every identifier class
	for i := 0; i < 2000*scale; i++ {
		kind := []string{"dacc", "dacc", "dref", "dauth"}[i%4]
		g := newC07Gen(rng.Fork(), st, kind)
		var defined []uint64
		switch kind {
		case "dacc":
			for _, k := range c07AccCalls {
				defined = append(defined, k.id)
			}
		case "dref":
			defined = []uint64{0, 1, 6, 7, 100}
		default:
			defined = []uint64{0, 1, 100}
		}
		imm := dispImm(g.rng, defined)
		g.c.ID = h.Hex(imm)
		id := signExtendImm(imm)
		if kind == "dref" && id >= 8 && id <= 13 { // inner-machine calls: not modelled
			imm = []byte{6}
			g.c.ID, id = "06", 6
		}
		g.fillCall(id)
		g.oracles()
		g.finishFetch(id)
		emit(g.c.Line())
		cls := "dispatch-small"
		switch {
		case id > 1<<63:
			cls = "dispatch-sign-extended"
		case id > 255:
			cls = "dispatch-above-255"
		}
		st.Inc(cls)
		g.stat(cls)
	}
	h.EmitStats(emit, st)
}
