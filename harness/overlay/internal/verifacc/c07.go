//go:build verif

// C07 part of package verifacc: one case = ONE host call on the real functions, with arbitrary registers,
// an arbitrary guest memory map and an arbitrary accumulate / refine context; every observable is rendered
// canonically (exit kind, 13 registers, gas, every changed memory byte, page accesses, both contexts in full).
//
// case grammar (one line, blank separated):
//
//	<kind> <id> G <gas> R <r0,..,r12> PG <n> (<page>:<acc>:<fill>)* BL <n> (<addr> <hex>)*
//	  T <slot> D <D> S <self> NX <next> PR <mgr> <assigners,> <designator> <registrar> <id:gas,..|->
//	  AQ <seed,> VK <seed> YD <hex|-> PV <n> (<id> <hex>)* XF <n> (<from> <to> <amt> <gas> <memo hex>)*
//	  YP <self balance in y> <yield of y hex|-> <manager of y> <next id of y> <y keeps the transfers 0|1>
//	  A <n> acct* F <none|hex> OFF <offset> EX <n> HI <n> (<id> <none|hex>)*
//
//	kind: acc | ref | auth   direct call of the function the table of that invocation holds for <id> (decimal, any uint64)
//	      dacc | dref | dauth the same through Host.HostCall on the program "ecalli <imm>; trap", <id> = imm bytes in hex
//	acc (page access): 0 absent, 1 read-only, 2 read-write, 3 present but inaccessible
package verifacc

import (
	"fmt"
	"sort"
	"strings"

	"github.com/New-JAMneration/JAM-Protocol/PVM"
	"github.com/New-JAMneration/JAM-Protocol/internal/service_account"
	"github.com/New-JAMneration/JAM-Protocol/internal/types"
	"github.com/New-JAMneration/JAM-Protocol/internal/utilities/hash"
	h "github.com/New-JAMneration/JAM-Protocol/internal/verifh"
)

type C07Page struct {
	Idx  uint32
	Acc  int
	Fill byte
}
type C07Blob struct {
	Addr uint64
	Data []byte
}
type C07Prov struct {
	ID   uint32
	Blob []byte
}
type C07Xfer struct {
	From, To uint32
	Amt, Gas uint64
	Memo     []byte
}
type C07Always struct {
	ID  uint32
	Gas uint64
}
type C07Hist struct {
	ID   uint32
	Some bool
	Blob []byte
}

type C07Case struct {
	Kind  string
	ID    string
	Gas   int64
	Regs  [13]uint64
	Pages []C07Page
	Blobs []C07Blob

	T, D, Self, Next uint32
	Mgr              uint32
	Assigners        []uint32
	Desig, Reg       uint32
	Always           []C07Always
	AQ               []byte
	VK               byte
	Yield            []byte
	Prov             []C07Prov
	Xfers            []C07Xfer

	YBal   uint64
	YYield []byte
	YMgr   uint32
	YNext  uint32
	YKeep  bool

	Accts []Acct

	FetchSome bool
	Fetch     []byte
	Off       uint64
	Ex        int
	Hist      []C07Hist
}

const (
	C07Cores      = 2
	C07Validators = 6
	C07Queue      = 80
)

func c07Fill(fill byte, k int) byte { return fill + byte(k) + byte(k>>8) }

func hexOrDash(b []byte) string { return h.Hex(b) }

func (c *C07Case) Line() string {
	var sb strings.Builder
	rs := make([]string, 13)
	for i, r := range c.Regs {
		rs[i] = fmt.Sprint(r)
	}
	fmt.Fprintf(&sb, "%s %s G %d R %s PG %d", c.Kind, c.ID, c.Gas, strings.Join(rs, ","), len(c.Pages))
	for _, p := range c.Pages {
		fmt.Fprintf(&sb, " %d:%d:%d", p.Idx, p.Acc, p.Fill)
	}
	fmt.Fprintf(&sb, " BL %d", len(c.Blobs))
	for _, b := range c.Blobs {
		fmt.Fprintf(&sb, " %d %s", b.Addr, h.Hex(b.Data))
	}
	al := make([]string, len(c.Always))
	for i, a := range c.Always {
		al[i] = fmt.Sprintf("%d:%d", a.ID, a.Gas)
	}
	aq := make([]uint32, len(c.AQ))
	for i, s := range c.AQ {
		aq[i] = uint32(s)
	}
	fmt.Fprintf(&sb, " T %d D %d S %d NX %d PR %d %s %d %d %s AQ %s VK %d YD %s PV %d", c.T, c.D, c.Self, c.Next,
		c.Mgr, csvU32(c.Assigners), c.Desig, c.Reg, joinOr(al, ","), csvU32(aq), c.VK, h.Hex(c.Yield), len(c.Prov))
	for _, p := range c.Prov {
		fmt.Fprintf(&sb, " %d %s", p.ID, h.Hex(p.Blob))
	}
	fmt.Fprintf(&sb, " XF %d", len(c.Xfers))
	for _, x := range c.Xfers {
		fmt.Fprintf(&sb, " %d %d %d %d %s", x.From, x.To, x.Amt, x.Gas, h.Hex(x.Memo))
	}
	fmt.Fprintf(&sb, " YP %d %s %d %d %d A %d", c.YBal, h.Hex(c.YYield), c.YMgr, c.YNext, b2i(c.YKeep), len(c.Accts))
	for i := range c.Accts {
		sb.WriteString(" " + c.Accts[i].Tokens())
	}
	if c.FetchSome {
		sb.WriteString(" F " + h.Hex(c.Fetch))
	} else {
		sb.WriteString(" F none")
	}
	fmt.Fprintf(&sb, " OFF %d EX %d HI %d", c.Off, c.Ex, len(c.Hist))
	for _, x := range c.Hist {
		if x.Some {
			fmt.Fprintf(&sb, " %d %s", x.ID, h.Hex(x.Blob))
		} else {
			fmt.Fprintf(&sb, " %d none", x.ID)
		}
	}
	return sb.String()
}

func c07Parse(f []string) *C07Case {
	t := &tokens{t: f}
	c := &C07Case{}
	c.Kind = t.next()
	c.ID = t.next()
	t.expect("G")
	g := t.next()
	if strings.HasPrefix(g, "-") {
		c.Gas = -int64(h.U(g[1:]))
	} else {
		c.Gas = int64(h.U(g))
	}
	t.expect("R")
	rs := parseCsv(t.next())
	if len(rs) != 13 {
		panic("verifh: need 13 registers")
	}
	copy(c.Regs[:], rs)
	t.expect("PG")
	n := int(t.u64())
	for i := 0; i < n; i++ {
		p := strings.Split(t.next(), ":")
		c.Pages = append(c.Pages, C07Page{Idx: uint32(h.U(p[0])), Acc: int(h.U(p[1])), Fill: byte(h.U(p[2]))})
	}
	t.expect("BL")
	n = int(t.u64())
	for i := 0; i < n; i++ {
		a := t.u64()
		c.Blobs = append(c.Blobs, C07Blob{Addr: a, Data: h.UnHex(t.next())})
	}
	t.expect("T")
	c.T = t.u32()
	t.expect("D")
	c.D = t.u32()
	t.expect("S")
	c.Self = t.u32()
	t.expect("NX")
	c.Next = t.u32()
	t.expect("PR")
	c.Mgr = t.u32()
	for _, v := range parseCsv(t.next()) {
		c.Assigners = append(c.Assigners, uint32(v))
	}
	c.Desig = t.u32()
	c.Reg = t.u32()
	if s := t.next(); s != "-" {
		for _, p := range strings.Split(s, ",") {
			q := strings.Split(p, ":")
			c.Always = append(c.Always, C07Always{ID: uint32(h.U(q[0])), Gas: h.U(q[1])})
		}
	}
	t.expect("AQ")
	for _, v := range parseCsv(t.next()) {
		c.AQ = append(c.AQ, byte(v))
	}
	t.expect("VK")
	c.VK = byte(t.u64())
	t.expect("YD")
	c.Yield = h.UnHex(t.next())
	t.expect("PV")
	n = int(t.u64())
	for i := 0; i < n; i++ {
		id := t.u32()
		c.Prov = append(c.Prov, C07Prov{ID: id, Blob: h.UnHex(t.next())})
	}
	t.expect("XF")
	n = int(t.u64())
	for i := 0; i < n; i++ {
		x := C07Xfer{From: t.u32(), To: t.u32(), Amt: t.u64(), Gas: t.u64()}
		x.Memo = h.UnHex(t.next())
		c.Xfers = append(c.Xfers, x)
	}
	t.expect("YP")
	c.YBal = t.u64()
	c.YYield = h.UnHex(t.next())
	c.YMgr = t.u32()
	c.YNext = t.u32()
	c.YKeep = t.next() == "1"
	t.expect("A")
	n = int(t.u64())
	for i := 0; i < n; i++ {
		c.Accts = append(c.Accts, parseAcct(t))
	}
	t.expect("F")
	if s := t.next(); s != "none" {
		c.FetchSome = true
		c.Fetch = h.UnHex(s)
	}
	t.expect("OFF")
	c.Off = t.u64()
	t.expect("EX")
	c.Ex = int(t.u64())
	t.expect("HI")
	n = int(t.u64())
	for i := 0; i < n; i++ {
		x := C07Hist{ID: t.u32()}
		if s := t.next(); s != "none" {
			x.Some = true
			x.Blob = h.UnHex(s)
		}
		c.Hist = append(c.Hist, x)
	}
	return c
}

// ---------------------------------------------------------------------------------------------
// building the machine state and the contexts

type c07Machine struct {
	c       *C07Case
	mem     *PVM.Memory
	initial map[uint32][]byte
	regs    PVM.Registers
	gas     PVM.Gas
	add     PVM.HostCallArgs
	pool    map[types.StateKey]poolEntry
	self    types.ServiceID
}

func c07AuthQueue(seed byte) types.AuthQueue {
	q := make(types.AuthQueue, C07Queue)
	for j := range q {
		for k := range q[j] {
			q[j][k] = seed + byte(j)
		}
	}
	return q
}

func c07Validators(seed byte) types.ValidatorsData {
	v := make(types.ValidatorsData, C07Validators)
	i := 0
	nextByte := func() byte { x := seed + byte(i); i++; return x }
	for k := range v {
		for j := range v[k].Bandersnatch {
			v[k].Bandersnatch[j] = nextByte()
		}
		for j := range v[k].Ed25519 {
			v[k].Ed25519[j] = nextByte()
		}
		for j := range v[k].Bls {
			v[k].Bls[j] = nextByte()
		}
		for j := range v[k].Metadata {
			v[k].Metadata[j] = nextByte()
		}
	}
	if i != 336*C07Validators {
		panic("verifh: validator record is not 336 octets")
	}
	return v
}

func (c *C07Case) partial(kv *types.StateKeyVals, pool map[types.StateKey]poolEntry, y bool) types.PartialStateSet {
	p := types.PartialStateSet{
		ServiceAccounts: types.ServiceAccountState{},
		Bless:           types.ServiceID(c.Mgr),
		Designate:       types.ServiceID(c.Desig),
		CreateAcct:      types.ServiceID(c.Reg),
		Assign:          make(types.ServiceIDList, len(c.Assigners)),
		AlwaysAccum:     types.AlwaysAccumulateMap{},
		ValidatorKeys:   c07Validators(c.VK),
	}
	for i, a := range c.Assigners {
		p.Assign[i] = types.ServiceID(a)
	}
	for _, a := range c.Always {
		p.AlwaysAccum[types.ServiceID(a.ID)] = types.Gas(a.Gas)
	}
	for _, s := range c.AQ {
		p.Authorizers = append(p.Authorizers, c07AuthQueue(s))
	}
	for i := range c.Accts {
		a := c.Accts[i]
		if y && a.ID == c.Self {
			a.Bal = c.YBal
		}
		p.ServiceAccounts[types.ServiceID(a.ID)] = a.build(kv, pool)
	}
	if y {
		p.Bless = types.ServiceID(c.YMgr)
	}
	return p
}

func (c *C07Case) xfers() []types.DeferredTransfer {
	out := []types.DeferredTransfer{}
	for _, x := range c.Xfers {
		d := types.DeferredTransfer{SenderID: types.ServiceID(x.From), ReceiverID: types.ServiceID(x.To), Balance: types.U64(x.Amt), GasLimit: types.Gas(x.Gas)}
		copy(d.Memo[:], x.Memo)
		out = append(out, d)
	}
	return out
}

func c07ProvKey(id types.ServiceID, blob []byte) types.OpaqueHash {
	enc := types.NewEncoder()
	a, _ := enc.Encode(&id)
	bs := types.ByteSequence(blob)
	b, _ := enc.Encode(&bs)
	return hash.Blake2bHash(append(a, b...))
}

var c07Mode = false

func c07Setup() {
	if !c07Mode {
		types.SetTinyMode()
		c07Mode = true
	}
}

func newC07Machine(c *C07Case) *c07Machine {
	c07Setup()
	types.UnreferencedPreimageTimeslots = int(c.D)
	if types.CoresCount != C07Cores || types.ValidatorsCount != C07Validators || types.AuthQueueSize != C07Queue {
		panic("verifh: unexpected chain configuration")
	}
	m := &c07Machine{c: c, pool: map[types.StateKey]poolEntry{}, self: types.ServiceID(c.Self), initial: map[uint32][]byte{}}
	// memory
	m.mem = &PVM.Memory{Pages: map[uint32]*PVM.Page{}}
	for _, p := range c.Pages {
		if p.Acc == 0 {
			continue
		}
		v := make([]byte, PVM.ZP)
		for k := range v {
			v[k] = c07Fill(p.Fill, k)
		}
		acc := PVM.MemoryInaccessible
		switch p.Acc {
		case 1:
			acc = PVM.MemoryReadOnly
		case 2:
			acc = PVM.MemoryReadWrite
		}
		m.mem.Pages[p.Idx] = &PVM.Page{Value: v, Access: acc}
	}
	for _, b := range c.Blobs {
		for i, x := range b.Data {
			a := b.Addr + uint64(i)
			if a < b.Addr || a >= 1<<32 {
				break
			}
			if pg, ok := m.mem.Pages[uint32(a/PVM.ZP)]; ok {
				pg.Value[a%PVM.ZP] = x
			}
		}
	}
	for idx, pg := range m.mem.Pages {
		m.initial[idx] = append([]byte{}, pg.Value...)
	}
	m.regs = PVM.Registers(c.Regs)
	m.gas = PVM.Gas(c.Gas)

	eta := types.Entropy{1, 2, 3}
	timeslot := types.TimeSlot(c.T)
	sid := m.self
	switch c.Kind {
	case "acc", "dacc":
		kvX, kvY := types.StateKeyVals{}, types.StateKeyVals{}
		px := c.partial(&kvX, m.pool, false)
		py := c.partial(&kvY, m.pool, true)
		x := PVM.I(px, m.self, timeslot, eta, &kvX)
		y := PVM.I(py, m.self, timeslot, eta, &kvY)
		x.ImportServiceID = types.ServiceID(c.Next)
		y.ImportServiceID = types.ServiceID(c.YNext)
		x.DeferredTransfers = c.xfers()
		if c.YKeep {
			y.DeferredTransfers = c.xfers()
		}
		if len(c.Yield) == 32 {
			v := types.OpaqueHash(c.Yield)
			x.Exception = &v
		}
		if len(c.YYield) == 32 {
			v := types.OpaqueHash(c.YYield)
			y.Exception = &v
		}
		for _, p := range c.Prov {
			for _, ctx := range []*PVM.ResultContext{&x, &y} {
				ctx.ServiceBlobs[c07ProvKey(types.ServiceID(p.ID), p.Blob)] = types.ServiceBlob{ServiceID: types.ServiceID(p.ID), Blob: append([]byte{}, p.Blob...)}
			}
		}
		sa := px.ServiceAccounts[m.self]
		in := []types.OperandOrDeferredTransfer{
			{DeferredTransfer: &types.DeferredTransfer{SenderID: 7000, ReceiverID: m.self, Balance: 5, GasLimit: 10}},
			{Operand: &types.Operand{GasLimit: 5, AuthOutput: types.ByteSequence{9, 8, 7}}},
		}
		m.add = PVM.HostCallArgs{
			GeneralArgs:    PVM.GeneralArgs{ServiceAccount: &sa, ServiceID: &sid, ServiceAccountState: &px.ServiceAccounts, StorageKeyVal: &kvX},
			AccumulateArgs: PVM.AccumulateArgs{ResultContextX: x, ResultContextY: y, Eta: eta, OperandOrDeferredTransfers: in, Timeslot: timeslot},
		}
	default: // refine / is-authorized
		kv := types.StateKeyVals{}
		d := types.ServiceAccountState{}
		for i := range c.Accts {
			a := c.Accts[i]
			for j := range a.Stor {
				a.Stor[j].KV = false
			}
			for j := range a.Look {
				a.Look[j].KV = false
			}
			d[types.ServiceID(a.ID)] = a.build(&kv, m.pool)
		}
		ex := []types.ExportSegment{}
		for i := 0; i < c.Ex; i++ {
			var s types.ExportSegment
			for k := range s {
				s[k] = byte(i + 1)
			}
			ex = append(ex, s)
		}
		auth := types.ByteSequence{4, 5, 6, 7}
		m.add = PVM.HostCallArgs{
			GeneralArgs: PVM.GeneralArgs{ServiceID: &sid, ServiceAccountState: &d, StorageKeyVal: &kv},
			RefineArgs: PVM.RefineArgs{TimeSlot: timeslot, ExportSegmentOffset: uint(c.Off), ExportSegment: ex,
				IntegratedPVMMap: PVM.IntegratedPVMMap{}, AuthOutput: &auth},
		}
	}
	return m
}

func (m *c07Machine) table() PVM.Omegas {
	switch m.c.Kind {
	case "acc", "dacc":
		return PVM.AccumulateOmegas
	case "ref", "dref":
		return PVM.RefineOmegas
	}
	return PVM.IsAuthorizedOmegas
}

func (m *c07Machine) input(op PVM.OperationType) PVM.OmegaInput {
	return PVM.OmegaInput{Operation: op, VM: &PVM.VMState{Registers: &m.regs, Memory: m.mem, Gas: &m.gas}, Addition: m.add, HostCalls: m.table()}
}

// the oracles of the model, computed by the implementation's own selection code on the initial state
func (m *c07Machine) fetchOracle() ([]byte, bool) {
	regs := m.regs
	gas := m.gas
	in := PVM.OmegaInput{Operation: PVM.FetchOp, VM: &PVM.VMState{Registers: &regs, Memory: m.mem, Gas: &gas}, Addition: m.add, HostCalls: m.table()}
	return PVM.VerifC07FetchBlob(in)
}

func (m *c07Machine) histOracle() []C07Hist {
	var out []C07Hist
	hp := m.regs[8]
	if hp > 1<<32-32 {
		return nil
	}
	for p := uint32(hp / PVM.ZP); p <= uint32((hp+31)/PVM.ZP); p++ {
		if m.mem.GetPageAccess(p) == PVM.MemoryInaccessible {
			return nil
		}
	}
	hh := types.OpaqueHash(m.mem.Read(hp, 32))
	d := *m.add.GeneralArgs.ServiceAccountState
	for _, id := range sortedIDs(d) {
		v := service_account.HistoricalLookup(d[id], m.add.RefineArgs.TimeSlot, hh)
		out = append(out, C07Hist{ID: uint32(id), Some: v != nil, Blob: append([]byte{}, v...)})
	}
	return out
}

// ---------------------------------------------------------------------------------------------
// rendering

func trimZeros(b []byte) []byte {
	n := len(b)
	for n > 0 && b[n-1] == 0 {
		n--
	}
	return b[:n]
}

// digest8: a 62-bit polynomial checksum of a large context component (authorisation queue, validator keys)
func digest8(b []byte) string {
	hv := uint64(1469598103)
	for _, x := range b {
		hv = (hv*1000003 + uint64(x) + 1) & 0x3fffffffffffffff
	}
	return fmt.Sprintf("%016x", hv)
}

func (m *c07Machine) acct(id types.ServiceID, a types.ServiceAccount, kv *types.StateKeyVals) string {
	var st, lk, pi []string
	for k, v := range a.StorageDict {
		st = append(st, h.Hex([]byte(k))+"="+h.Hex(v))
	}
	for k, v := range a.LookupDict {
		sl := make([]string, len(v))
		for i, s := range v {
			sl[i] = fmt.Sprint(uint32(s))
		}
		lk = append(lk, fmt.Sprintf("%s/%d=%s", h.Hex(k.Hash[:]), k.Length, joinOr(sl, ".")))
	}
	if kv != nil {
		for _, e := range *kv {
			p, ok := m.pool[e.Key]
			if !ok || p.id != uint32(id) {
				continue
			}
			if p.stor != nil {
				st = append(st, h.Hex(p.stor.K)+"="+h.Hex(e.Value))
			} else {
				sl := make([]string, len(p.look.Slots))
				for i, s := range p.look.Slots {
					sl[i] = fmt.Sprint(s)
				}
				lk = append(lk, fmt.Sprintf("%s/%d=%s", h.Hex(p.look.H[:]), p.look.Z, joinOr(sl, ".")))
			}
		}
	}
	for k := range a.PreimageLookup {
		pi = append(pi, h.Hex(k[:]))
	}
	sort.Strings(st)
	sort.Strings(lk)
	sort.Strings(pi)
	i := a.ServiceInfo
	return fmt.Sprintf("%d{%s,%d,%d,%d,%d,%d,%d,%d,%d,%d|%s|%s|%s}", id, h.Hex(i.CodeHash[:]), i.Balance, i.Items, i.Bytes, i.MinItemGas, i.MinMemoGas,
		i.DepositOffset, i.CreationSlot, i.LastAccumulationSlot, i.ParentService, joinOr(st, ","), joinOr(lk, ","), joinOr(pi, ","))
}

func (m *c07Machine) ctx(c *PVM.ResultContext) string {
	var parts []string
	for _, id := range sortedIDs(c.PartialState.ServiceAccounts) {
		parts = append(parts, m.acct(id, c.PartialState.ServiceAccounts[id], c.StorageKeyVal))
	}
	var xf []string
	for _, t := range c.DeferredTransfers {
		xf = append(xf, fmt.Sprintf("%d>%d:%d:%d:%s", t.SenderID, t.ReceiverID, t.Balance, t.GasLimit, h.Hex(trimZeros(t.Memo[:]))))
	}
	ps := c.PartialState
	as := make([]string, len(ps.Assign))
	for i, a := range ps.Assign {
		as[i] = fmt.Sprint(uint32(a))
	}
	var al []string
	ids := make([]types.ServiceID, 0, len(ps.AlwaysAccum))
	for id := range ps.AlwaysAccum {
		ids = append(ids, id)
	}
	sort.Slice(ids, func(i, j int) bool { return ids[i] < ids[j] })
	for _, id := range ids {
		al = append(al, fmt.Sprintf("%d:%d", id, ps.AlwaysAccum[id]))
	}
	var aq []string
	for _, q := range ps.Authorizers {
		raw := make([]byte, 0, 32*len(q))
		for _, hh := range q {
			raw = append(raw, hh[:]...)
		}
		aq = append(aq, digest8(raw))
	}
	vk := make([]byte, 0, 336*len(ps.ValidatorKeys))
	for _, v := range ps.ValidatorKeys {
		vk = append(vk, v.Bandersnatch[:]...)
		vk = append(vk, v.Ed25519[:]...)
		vk = append(vk, v.Bls[:]...)
		vk = append(vk, v.Metadata[:]...)
	}
	yd := "-"
	if c.Exception != nil {
		yd = h.Hex(c.Exception[:])
	}
	var pv []string
	for _, b := range c.ServiceBlobs {
		pv = append(pv, fmt.Sprintf("%d:%s", b.ServiceID, h.Hex(b.Blob)))
	}
	sort.Strings(pv)
	return fmt.Sprintf("%s t=%s nx=%d pr=%d/%s/%d/%d/%s aq=%s vk=%d:%s yd=%s pv=%s", joinOr(parts, " "), joinOr(xf, ","), c.ImportServiceID,
		ps.Bless, joinOr(as, "."), ps.Designate, ps.CreateAcct, joinOr(al, ","), joinOr(aq, "."), len(ps.ValidatorKeys), digest8(vk), yd, joinOr(pv, ","))
}

func (m *c07Machine) memDiff() (string, string) {
	var idxs []uint32
	for idx := range m.mem.Pages {
		idxs = append(idxs, idx)
	}
	sort.Slice(idxs, func(i, j int) bool { return idxs[i] < idxs[j] })
	var runs []string
	for _, idx := range idxs {
		cur := m.mem.Pages[idx].Value
		ini, ok := m.initial[idx]
		if !ok || len(cur) != len(ini) {
			runs = append(runs, fmt.Sprintf("page%d:resized", idx))
			continue
		}
		for k := 0; k < len(cur); {
			if cur[k] == ini[k] {
				k++
				continue
			}
			j := k
			for j < len(cur) && cur[j] != ini[j] {
				j++
			}
			runs = append(runs, fmt.Sprintf("%d:%s", uint64(idx)*PVM.ZP+uint64(k), h.Hex(cur[k:j])))
			k = j
		}
	}
	// page accesses
	ok := "1"
	want := map[uint32]PVM.MemoryAccess{}
	for _, p := range m.c.Pages {
		switch p.Acc {
		case 1:
			want[p.Idx] = PVM.MemoryReadOnly
		case 2:
			want[p.Idx] = PVM.MemoryReadWrite
		case 3:
			want[p.Idx] = PVM.MemoryInaccessible
		}
	}
	if len(want) != len(m.mem.Pages) {
		ok = "0"
	}
	for idx, pg := range m.mem.Pages {
		if a, found := want[idx]; !found || a != pg.Access {
			ok = "0"
		}
	}
	return joinOr(runs, ","), ok
}

func exitName(e PVM.ExitReason) string {
	switch e {
	case PVM.ExitContinue:
		return "continue"
	case PVM.ExitPanic:
		return "panic"
	case PVM.ExitOOG:
		return "oog"
	case PVM.ExitHalt:
		return "halt"
	}
	return fmt.Sprintf("exit%x", uint64(e))
}

func (m *c07Machine) render(exit string, add PVM.HostCallArgs) string {
	rs := make([]string, 13)
	for i, r := range m.regs {
		rs[i] = fmt.Sprint(r)
	}
	diff, pok := m.memDiff()
	s := fmt.Sprintf("%s R %s G %d M %s P %s", exit, strings.Join(rs, ","), int64(m.gas), diff, pok)
	// the guest's buffers are overwritten before the contexts are read: context data must not alias guest memory
	for _, pg := range m.mem.Pages {
		for k := range pg.Value {
			pg.Value[k] = 0xEE
		}
	}
	switch m.c.Kind {
	case "acc", "dacc":
		x, y := &add.AccumulateArgs.ResultContextX, &add.AccumulateArgs.ResultContextY
		ga := "1"
		if sa, ok := x.PartialState.ServiceAccounts[m.self]; ok && add.GeneralArgs.ServiceAccount != nil {
			g := add.GeneralArgs.ServiceAccount
			st := (*add.GeneralArgs.ServiceAccountState)[m.self]
			if g.ServiceInfo != sa.ServiceInfo || st.ServiceInfo != sa.ServiceInfo || len(g.StorageDict) != len(sa.StorageDict) ||
				len(g.LookupDict) != len(sa.LookupDict) || len(g.PreimageLookup) != len(sa.PreimageLookup) {
				ga = "0"
			}
		}
		s += fmt.Sprintf(" ga=%s X %s Y %s", ga, m.ctx(x), m.ctx(y))
	default:
		var ex []string
		for i, e := range add.RefineArgs.ExportSegment {
			if i < m.c.Ex {
				same := true
				for _, b := range e {
					if b != byte(i+1) {
						same = false
					}
				}
				if same {
					continue
				}
			}
			ex = append(ex, fmt.Sprintf("%d=%s", i, h.Hex(trimZeros(e[:]))))
		}
		s += fmt.Sprintf(" E %d:%s", len(add.RefineArgs.ExportSegment), joinOr(ex, ","))
	}
	return s
}

// signExtendImm: the ecalli immediate (1..4 bytes, little endian) sign-extended to 64 bits
func signExtendImm(b []byte) uint64 {
	var v uint64
	for i, x := range b {
		v |= uint64(x) << (8 * uint(i))
	}
	n := uint(len(b))
	if n > 0 && n < 8 && b[n-1]&0x80 != 0 {
		v |= ^uint64(0) << (8 * n)
	}
	return v
}

func c07Program(imm []byte) PVM.Program {
	code := append([]byte{10}, imm...)
	code = append(code, 0) // trap
	mask := make([]byte, (len(code)+7)/8)
	mask[0] |= 1
	mask[(len(code)-1)/8] |= 1 << uint((len(code)-1)%8)
	enc, _ := types.NewEncoder().EncodeUint(uint64(len(code)))
	blob := []byte{0, 0}
	blob = append(blob, enc...)
	blob = append(blob, code...)
	blob = append(blob, mask...)
	p, er := PVM.DeBlobProgramCode(blob)
	if er != PVM.ExitContinue {
		panic("verifh: deblob of the dispatch program failed")
	}
	return p
}

// RunC07 executes one case.
func RunC07(f []string) string {
	c := c07Parse(f)
	m := newC07Machine(c)
	// oracles must be the ones recorded in the case (the model reads them from the input)
	if c.Kind == "acc" || c.Kind == "ref" || c.Kind == "auth" || strings.HasPrefix(c.Kind, "d") {
		if v, ok := m.fetchOracle(); ok != c.FetchSome || string(v) != string(c.Fetch) {
			return "ORACLE-MISMATCH fetch"
		}
		if c.Kind == "ref" || c.Kind == "dref" {
			o := m.histOracle()
			if len(o) != len(c.Hist) {
				return "ORACLE-MISMATCH hist"
			}
			for i := range o {
				if o[i].ID != c.Hist[i].ID || o[i].Some != c.Hist[i].Some || string(o[i].Blob) != string(c.Hist[i].Blob) {
					return "ORACLE-MISMATCH hist"
				}
			}
		}
	}
	exit, add := m.exec()
	if exit == "" {
		return "BADCASE"
	}
	return m.render(exit, add)
}

// exec performs the call of the case on the machine
func (m *c07Machine) exec() (string, PVM.HostCallArgs) {
	c := m.c
	switch c.Kind {
	case "acc", "ref", "auth":
		op := PVM.OperationType(h.U(c.ID))
		omega := PVM.VerifC07Omega(m.table(), op, m.gas)
		out := omega(m.input(op))
		return exitName(out.ExitReason), out.Addition
	case "dacc", "dref", "dauth":
		prog := c07Program(h.UnHex(c.ID))
		add := m.add
		add.Program = &prog
		host := PVM.NewHost(&prog, m.regs, m.mem, m.gas, add, m.table())
		res := host.HostCall(0, 0)
		m.regs = *res.VM.Registers
		m.gas = *res.VM.Gas
		return exitName(res.ExitReason), res.Addition
	}
	return "", PVM.HostCallArgs{}
}

// outcome class of a finished call, for the distribution statistics of the generator
func (m *c07Machine) outcome(exit string) string {
	if exit != "continue" {
		return exit
	}
	switch m.regs[7] {
	case PVM.OK:
		return "ok"
	case PVM.NONE:
		return "none"
	case PVM.WHAT:
		return "what"
	case PVM.OOB:
		return "oob"
	case PVM.WHO:
		return "who"
	case PVM.FULL:
		return "full"
	case PVM.CORE:
		return "core"
	case PVM.CASH:
		return "cash"
	case PVM.LOW:
		return "low"
	case PVM.HUH:
		return "huh"
	}
	return "value"
}

func C07Blake(b []byte) [32]byte { return Blake2b(b) }
