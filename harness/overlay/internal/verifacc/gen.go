//go:build verif

package verifacc

import (
	"encoding/binary"
	"fmt"
	"math/big"

	"github.com/New-JAMneration/JAM-Protocol/internal/types"
	h "github.com/New-JAMneration/JAM-Protocol/internal/verifh"
)

// Profile selects the op mix: "c08" (creation, transfer, ejection, upgrade, checkpoint dominate) or
// "c09" (write, solicit, forget, new, info dominate).
type Profile struct {
	Name    string
	Weights map[string]int
	Inflate int // 1 in Inflate sequences has a caller whose recorded counters put its threshold near 2^32, 2^63, 2^64 or beyond
}

var ProfileC08 = Profile{"c08", map[string]int{"new": 30, "xfer": 30, "ej": 14, "upg": 6, "ck": 6, "wr": 5, "sol": 4, "fg": 3, "info": 2}, 5}
var ProfileC09 = Profile{"c09", map[string]int{"new": 10, "xfer": 4, "ej": 3, "upg": 2, "ck": 4, "wr": 34, "sol": 20, "fg": 16, "info": 7}, 12}

var opOrder = []string{"new", "xfer", "ej", "upg", "ck", "wr", "sol", "fg", "info"}

const minSvc = 65536

func e32(id uint32) (o [32]byte) {
	binary.LittleEndian.PutUint32(o[:], id)
	return
}

func randHash(rng *h.Rng) (o [32]byte) {
	copy(o[:], rng.Bytes(32))
	return
}

func pick64(rng *h.Rng, vals ...uint64) uint64 { return vals[rng.Intn(len(vals))] }

// around returns c+delta for a small signed delta, clamped to [0, 2^64-1]
func around(rng *h.Rng, c uint64) uint64 {
	d := uint64(rng.Intn(4))
	if rng.Bool() {
		if c > ^uint64(0)-d {
			return ^uint64(0)
		}
		return c + d
	}
	if c < d {
		return 0
	}
	return c - d
}

func boundary64(rng *h.Rng) uint64 {
	switch rng.Intn(7) {
	case 0:
		return around(rng, 1<<32)
	case 1:
		return around(rng, 1<<63)
	case 2:
		return around(rng, ^uint64(0))
	case 3:
		return around(rng, (1<<32)/10)
	case 4:
		return uint64(rng.Intn(300))
	case 5:
		return rng.U64() >> uint(rng.Intn(64))
	}
	return around(rng, 1<<31)
}

func genSlots(rng *h.Rng, n int, t, d uint32) []uint32 {
	// values around t-D so that "y < t - D" is true, false, and at the boundary
	base := int64(t) - int64(d)
	mk := func() uint32 {
		v := base + int64(rng.Intn(7)) - 3
		if rng.Chance(1, 4) {
			v = int64(rng.Intn(int(t) + 5))
		}
		if v < 0 {
			v = 0
		}
		return uint32(v)
	}
	s := make([]uint32, n)
	for i := range s {
		s[i] = mk()
	}
	return s
}

func genStorage(rng *h.Rng, a *Acct, kvOK bool) {
	n := rng.Intn(4)
	seen := map[string]bool{}
	for i := 0; i < n; i++ {
		k := rng.Bytes(1 + rng.Intn(12))
		if rng.Chance(1, 8) {
			k = rng.Bytes(30 + rng.Intn(40))
		}
		if seen[string(k)] {
			continue
		}
		seen[string(k)] = true
		v := rng.Bytes(rng.Intn(40))
		a.Stor = append(a.Stor, StorE{K: k, V: v, KV: kvOK && rng.Chance(1, 4)})
	}
}

func genLookups(rng *h.Rng, a *Acct, t, d uint32, kvOK bool) {
	n := rng.Intn(4)
	for i := 0; i < n; i++ {
		var l LookE
		if rng.Chance(1, 3) { // a provided preimage with its lookup record
			blob := rng.Bytes(1 + rng.Intn(20))
			l.H = Blake2b(blob)
			l.Z = uint32(len(blob))
			l.Slots = genSlots(rng, 1+rng.Intn(3), t, d)
			dup := false
			for _, o := range a.Look { // short blobs collide: the lookup map must not get the same key twice
				dup = dup || (o.H == l.H && o.Z == l.Z)
			}
			if dup {
				continue
			}
			a.Pre = append(a.Pre, PreE{H: l.H, Blob: blob})
		} else {
			l.H = randHash(rng)
			l.Z = uint32(rng.Intn(200))
			if rng.Chance(1, 6) {
				l.Z = uint32(boundary64(rng))
			}
			l.Slots = genSlots(rng, rng.Intn(4), t, d)
			l.KV = kvOK && rng.Chance(1, 4)
		}
		a.Look = append(a.Look, l)
	}
}

func (a *Acct) exactThr() *big.Int {
	i, o := a.Recorded()
	return ExactThreshold(i, o, a.Gratis)
}

func genGratis(rng *h.Rng, a *Acct) {
	if !rng.Chance(1, 5) {
		return
	}
	i, o := a.Footprint()
	raw := ExactThreshold(i, o, 0).Uint64()
	a.Gratis = pick64(rng, around(rng, raw), around(rng, raw), raw/2, raw+uint64(rng.Intn(1000)), boundary64(rng))
}


// only calls that read the recorded counters (never update them) are run on an inflated caller
var inflatedWeights = map[string]int{"new": 45, "xfer": 30, "ej": 8, "upg": 5, "ck": 5, "info": 7}

var two64 = new(big.Int).Lsh(big.NewInt(1), 64)

// inflate gives the caller recorded counters (and possibly a gratis offset) that put its threshold at a chosen
// place; returns the kind for the statistics
func inflate(rng *h.Rng, a *Acct) string {
	kind := []string{"t32", "t63", "t64", "t64", "sat", "sat"}[rng.Intn(6)]
	items := uint32(pick64(rng, uint64(rng.Intn(50)), uint64(rng.Intn(50)), around(rng, (1<<32)/10), 1<<32-1-uint64(rng.Intn(3))))
	gratis := pick64(rng, 0, 0, uint64(rng.Intn(1000)), boundary64(rng))
	var t *big.Int
	switch kind {
	case "t32":
		t = new(big.Int).SetUint64(around(rng, 1<<32) + uint64(rng.Intn(3))*(1<<32))
	case "t63":
		t = new(big.Int).SetUint64(around(rng, 1<<63))
	case "t64": // within reach of a_t below 2^64
		t = new(big.Int).SetUint64(^uint64(0) - pick64(rng, uint64(rng.Intn(4)), uint64(rng.Intn(3000)), uint64(rng.Intn(3000)), around(rng, 1<<32), uint64(rng.Intn(1<<20))))
	default: // the exact threshold does not fit a uint64
		t = new(big.Int).Add(two64, new(big.Int).SetUint64(pick64(rng, 0, 1, uint64(rng.Intn(1000)), boundary64(rng)>>1)))
	}
	// octets = t - 100 - 10*items + gratis, which must be a uint64 (otherwise fall back to gratis 0 / few items)
	oct := func() *big.Int {
		o := new(big.Int).Sub(t, big.NewInt(100))
		o.Sub(o, new(big.Int).Mul(big.NewInt(10), new(big.Int).SetUint64(uint64(items))))
		return o.Add(o, new(big.Int).SetUint64(gratis))
	}
	o := oct()
	if o.Sign() < 0 || !o.IsUint64() {
		gratis = 0
		o = oct()
	}
	if o.Sign() < 0 {
		items = uint32(rng.Intn(50))
		o = oct()
	}
	if !o.IsUint64() {
		o.SetUint64(^uint64(0))
	}
	a.HasRC, a.RCItems, a.RCOctets, a.Gratis = true, items, o.Uint64(), gratis
	return kind
}

// GenSeq produces one sequence case. The generator drives the real code while it generates, so that the
// operands of each call can be drawn around the caller's current balance / threshold.
func GenSeq(rng *h.Rng, prof Profile, nops int, st h.Stats) *Case {
	c := &Case{}
	c.D = uint32(pick64(rng, 32, 32, 32, 0, 5, 19200))
	c.T = uint32(pick64(rng, uint64(rng.Intn(100)), uint64(rng.Intn(3000)), uint64(c.D)+uint64(rng.Intn(10)), uint64(rng.U64()>>34)))
	c.Self = uint32(pick64(rng, uint64(rng.Intn(300)), minSvc+uint64(rng.Intn(1000)), rng.U64()>>32))
	other := func() uint32 {
		for {
			v := uint32(pick64(rng, uint64(rng.Intn(300)), minSvc+uint64(rng.Intn(1000)), rng.U64()>>32))
			if v != c.Self {
				return v
			}
		}
	}
	c.Mgr, c.Reg = other(), other()
	if rng.Chance(1, 4) {
		c.Mgr = c.Self
	}
	if rng.Chance(1, 3) {
		c.Reg = c.Self
	}
	used := map[uint32]bool{c.Self: true}
	self := Acct{ID: c.Self, Code: randHash(rng), G: uint64(rng.Intn(50)), M: uint64(rng.Intn(50)), Created: uint32(rng.Intn(100)), LastAcc: uint32(rng.Intn(100)), Parent: uint32(rng.Intn(1000))}
	genStorage(rng, &self, true)
	genLookups(rng, &self, c.T, c.D, true)
	genGratis(rng, &self)
	c.Accts = append(c.Accts, self)
	nOther := 1 + rng.Intn(4)
	for i := 0; i < nOther; i++ {
		id := other()
		if used[id] {
			continue
		}
		used[id] = true
		a := Acct{ID: id, Code: randHash(rng), G: uint64(rng.Intn(50)), M: pick64(rng, 0, 0, uint64(rng.Intn(50)), 1000), Created: uint32(rng.Intn(100)), Parent: c.Self}
		if rng.Chance(1, 2) { // ejectable child: code = E_32(self), exactly one lookup record [x, y]
			a.Code = e32(c.Self)
			l := LookE{H: randHash(rng), Z: uint32(rng.Intn(300)), Slots: genSlots(rng, 2, c.T, c.D)}
			if rng.Chance(1, 8) {
				l.Slots = genSlots(rng, rng.Intn(4), c.T, c.D)
			}
			a.Look = []LookE{l}
			if rng.Chance(1, 8) {
				genStorage(rng, &a, false)
			}
		} else {
			genStorage(rng, &a, false)
			genLookups(rng, &a, c.T, c.D, false)
			genGratis(rng, &a)
		}
		c.Accts = append(c.Accts, a)
	}
	// next identifier: free, >= S; sometimes the successor candidates are occupied (check must skip)
	for {
		c.Next = uint32(pick64(rng, minSvc+uint64(rng.Intn(2000)), minSvc+(rng.U64()%((1<<32)-minSvc-256))))
		if !used[c.Next] {
			break
		}
	}
	if rng.Chance(1, 3) {
		cand := minSvc + (c.Next-minSvc+42)%((1<<32)-minSvc-256)
		for j := uint32(0); j < uint32(1+rng.Intn(2)); j++ {
			id := cand + j
			if !used[id] && id != c.Next {
				used[id] = true
				c.Accts = append(c.Accts, Acct{ID: id, Code: randHash(rng), Parent: 1})
			}
		}
	}
	// incoming transfers
	for i := rng.Intn(4); i > 0; i-- {
		c.In = append(c.In, pick64(rng, uint64(rng.Intn(1000)), boundary64(rng)>>3, 0))
	}
	// balances: threshold + slack, boundary biased; the whole supply stays < 2^64 (consistent state)
	budget := new(big.Int).Lsh(big.NewInt(1), 64)
	budget.Sub(budget, big.NewInt(1))
	for _, v := range c.In {
		budget.Sub(budget, new(big.Int).SetUint64(v))
	}
	inflated := prof.Inflate > 0 && rng.Chance(1, prof.Inflate)
	if inflated {
		k := inflate(rng, &c.Accts[0])
		budget.Sub(budget, big.NewInt(1)) // supply <= 2^64-2: no balance can ever equal a saturated threshold
		st.Inc(prof.Name + "-inflated-" + k)
	}
	thrs := make([]*big.Int, len(c.Accts))
	for i := range c.Accts {
		a := &c.Accts[i]
		thr := a.exactThr()
		if i == 0 && inflated {
			thrs[i] = thr
			continue
		}
		if !thr.IsUint64() || thr.Cmp(new(big.Int).Rsh(budget, 3)) > 0 {
			// unaffordable footprint: drop the big entries
			a.Look, a.Stor, a.Pre, a.Gratis = nil, nil, nil, 0
			if a.Code == e32(c.Self) {
				a.Code = randHash(rng)
			}
			thr = a.exactThr()
		}
		thrs[i] = thr
		budget.Sub(budget, thr)
	}
	if inflated {
		// balance around the (representable) threshold, around threshold + a_t for typical a_t, or small
		t := new(big.Int).Set(thrs[0])
		if !t.IsUint64() {
			t.SetUint64(^uint64(0))
		}
		at := pick64(rng, 201, 201+uint64(rng.Intn(3000)), 2001, 201+(1<<32-1))
		var b *big.Int
		switch rng.Intn(6) {
		case 0:
			b = new(big.Int).SetUint64(around(rng, t.Uint64()))
		case 1, 2:
			b = new(big.Int).Add(t, new(big.Int).SetUint64(around(rng, at)))
		case 3:
			b = new(big.Int).Add(t, new(big.Int).SetUint64(uint64(rng.Intn(5000))))
		case 4:
			b = new(big.Int).SetUint64(around(rng, at) - uint64(rng.Intn(2)))
		default:
			b = new(big.Int).SetUint64(uint64(rng.Intn(5000)))
		}
		lim := new(big.Int).Sub(budget, big.NewInt(1)) // keeps the balance <= 2^64-2 (a saturated threshold stays unreachable)
		if b.Cmp(lim) > 0 {
			b.Set(lim)
			if rng.Bool() {
				b.Sub(b, new(big.Int).SetUint64(uint64(rng.Intn(3000))))
			}
		}
		c.Accts[0].Bal = b.Uint64()
		budget.Sub(budget, b)
	}
	for i := len(c.Accts) - 1; i >= 0; i-- {
		if i == 0 && inflated {
			continue
		}
		slack := new(big.Int).SetUint64(pick64(rng, 0, 1, uint64(rng.Intn(400)), uint64(rng.Intn(400)), uint64(rng.Intn(100000)), boundary64(rng), boundary64(rng)))
		if slack.Cmp(budget) > 0 || (i == 0 && rng.Chance(1, 12)) { // the caller holds everything that is left: total = 2^64-1
			slack.Set(budget)
		}
		budget.Sub(budget, slack)
		c.Accts[i].Bal = new(big.Int).Add(thrs[i], slack).Uint64()
	}
	// ops, drawn against the live state of the real implementation
	r := NewRunner(c)
	weights := prof.Weights
	if inflated {
		weights = inflatedWeights
	}
	total := 0
	for _, k := range opOrder {
		total += weights[k]
	}
	for n := 0; n < nops; n++ {
		w := rng.Intn(total)
		name := ""
		for _, k := range opOrder {
			if w < weights[k] {
				name = k
				break
			}
			w -= weights[k]
		}
		o := genOp(rng, c, r, name)
		c.Ops = append(c.Ops, o)
		out := r.Step(o)
		tag := prof.Name
		if inflated {
			tag += "-infl"
		}
		st.Inc(tag + "-" + name)
		st.Inc(tag + "-" + name + "-" + classify(out))
	}
	return c
}

func classify(out string) string {
	switch out {
	case "0":
		return "ok"
	case "18446744073709551615":
		return "none"
	case "18446744073709551612":
		return "who"
	case "18446744073709551611":
		return "full"
	case "18446744073709551609":
		return "cash"
	case "18446744073709551608":
		return "low"
	case "18446744073709551607":
		return "huh"
	}
	if len(out) > 0 && out[len(out)-1] >= 'a' && out[0] != 'i' && out[0] != 'c' {
		return "abnormal"
	}
	return "val"
}

func genOp(rng *h.Rng, c *Case, r *Runner, name string) []string {
	x := &r.Add.ResultContextX
	d := x.PartialState.ServiceAccounts
	self := d[types.ServiceID(c.Self)]
	bal := uint64(self.ServiceInfo.Balance)
	thrB := ExactThreshold(uint32(self.ServiceInfo.Items), uint64(self.ServiceInfo.Bytes), uint64(self.ServiceInfo.DepositOffset))
	free := uint64(0)
	if thrB.IsUint64() && thrB.Uint64() <= bal {
		free = bal - thrB.Uint64()
	}
	gapT := uint64(0) // 2^64-1 minus the caller's threshold, 0 when the threshold does not fit
	if thrB.IsUint64() {
		gapT = ^uint64(0) - thrB.Uint64()
	}
	ids := sortedIDs(d)
	someID := func() uint64 {
		switch rng.Intn(8) {
		case 0:
			return uint64(rng.U64() >> 32) // most likely absent
		case 1:
			return uint64(c.Self)
		}
		return uint64(ids[rng.Intn(len(ids))])
	}
	u := func(v uint64) string { return fmt.Sprint(v) }
	switch name {
	case "new":
		var l uint64
		gap := uint64(0) // distance from the caller's threshold to 2^64 (when it is within a code length)
		if thrB.IsUint64() {
			gap = ^uint64(0) - thrB.Uint64()
		}
		sel := rng.Intn(6)
		if !thrB.IsUint64() || gap < 1<<33 || rng.Chance(1, 10) {
			sel = rng.Intn(8)
		}
		switch sel {
		case 6: // a_t around 2^64 - (x_s)_t, or any small code length
			l = uint64(rng.Intn(5000))
			if gap < 1<<32 && rng.Bool() {
				l = around(rng, gap+1-min64(gap+1, 201))
			}
		case 7: // a_t = balance + 1, balance, ...
			l = around(rng, bal-min64(bal, 200))
		case 0, 1, 2: // a_t = 201 + l around the free balance
			base := free
			if rng.Chance(2, 5) { // leave something for later calls
				base = free / uint64(2+rng.Intn(3))
			}
			l = around(rng, base-min64(base, 201))
		case 3:
			l = uint64(rng.Intn(300))
		case 4:
			l = pick64(rng, 0, 1<<32-1, 1<<32-2, around(rng, 1<<31))
		case 5:
			l = around(rng, bal) // threshold above the whole balance
		}
		if l >= 1<<32 {
			l = 1<<32 - 1 - uint64(rng.Intn(3))
		}
		f := uint64(0)
		if c.Self != c.Mgr && rng.Chance(1, 10) {
			f = 1 + uint64(rng.Intn(100)) // not the manager: HUH
		}
		i := uint64(rng.Intn(minSvc))
		if rng.Chance(1, 3) {
			i = someID()
		}
		if rng.Chance(1, 4) {
			i = minSvc + uint64(rng.Intn(100))
		}
		return []string{"new", h.Hex(rng.Bytes(32)), u(l), u(uint64(rng.Intn(100))), u(pick64(rng, 0, uint64(rng.Intn(100)), 5)), u(f), u(i)}
	case "upg":
		return []string{"upg", h.Hex(rng.Bytes(32)), u(uint64(rng.Intn(1000))), u(uint64(rng.Intn(1000)))}
	case "xfer":
		dst := someID()
		amt := uint64(0)
		switch rng.Intn(8) {
		case 0, 1, 2:
			amt = around(rng, free)
		case 3:
			amt = around(rng, bal)
		case 4:
			amt = boundary64(rng)
		case 5:
			amt = uint64(rng.Intn(1000))
		case 6:
			amt = free / uint64(2+rng.Intn(5))
		case 7:
			amt = pick64(rng, 0, ^uint64(0), ^uint64(0)-bal, (^uint64(0)-bal)+1+uint64(rng.Intn(3)), around(rng, gapT))
		}
		l := uint64(rng.Intn(60))
		if rng.Chance(1, 6) {
			l = pick64(rng, 0, 999, 1000, 1001, 1<<40)
		}
		return []string{"xfer", u(dst), u(amt), u(l), h.Hex(rng.Bytes(rng.Intn(4)))}
	case "ej":
		dst := someID()
		hh := randHash(rng)
		if a, ok := d[types.ServiceID(dst)]; ok && !rng.Chance(1, 6) {
			for k := range a.LookupDict {
				hh = k.Hash
				break
			}
			if len(a.LookupDict) > 1 { // map order must not leak into the case: take the smallest hash
				for k := range a.LookupDict {
					if string(k.Hash[:]) < string(hh[:]) {
						hh = k.Hash
					}
				}
			}
		}
		return []string{"ej", u(dst), h.Hex(hh[:])}
	case "ck":
		return []string{"ck"}
	case "wr":
		var k []byte
		keys := r.storageKeys(c.Self)
		if len(keys) > 0 && rng.Chance(3, 5) {
			k = keys[rng.Intn(len(keys))]
		} else {
			k = rng.Bytes(1 + rng.Intn(10))
		}
		if rng.Chance(1, 5) {
			return []string{"wr", h.Hex(k), "-"}
		}
		vl := rng.Intn(60)
		if rng.Chance(1, 2) { // new threshold around the balance (exact when the key is new)
			need := uint64(10 + 34 + len(k))
			if free >= need && free-need < 0x7000 {
				vl = int(around(rng, free-need))
			} else if free < need {
				vl = 1 + rng.Intn(3)
			}
		}
		if vl > 0x7800 {
			vl = 0x7800
		}
		if vl == 0 {
			vl = 1
		}
		return []string{"wr", h.Hex(k), h.Hex(rng.Bytes(vl))}
	case "sol", "fg":
		looks := r.lookupKeys(c.Self)
		var hh [32]byte
		var z uint64
		if len(looks) > 0 && (name == "fg" && rng.Chance(9, 10) || name == "sol" && rng.Chance(2, 5)) {
			lk := looks[rng.Intn(len(looks))]
			hh, z = lk.Hash, uint64(lk.Length)
			if rng.Chance(1, 10) && z+1 < 1<<32 {
				z++
			}
		} else {
			hh = randHash(rng)
			switch rng.Intn(4) {
			case 0, 1: // 20 + 81 + z around the free balance
				z = around(rng, free-min64(free, 101))
			case 2:
				z = uint64(rng.Intn(500))
			case 3:
				z = boundary64(rng)
			}
			if z >= 1<<32 {
				z = 1<<32 - 1 - uint64(rng.Intn(3))
			}
		}
		return []string{name, h.Hex(hh[:]), u(z)}
	case "info":
		s := someID()
		if rng.Chance(1, 2) {
			s = ^uint64(0)
		}
		return []string{"info", u(s)}
	}
	panic("verifh: bad op name")
}

func min64(a, b uint64) uint64 {
	if a < b {
		return a
	}
	return b
}

type lkey = types.LookupMetaMapkey

// live keys of the caller (dictionary and pool), in a canonical order
func (r *Runner) storageKeys(id uint32) [][]byte {
	x := &r.Add.ResultContextX
	var ks []string
	for k := range x.PartialState.ServiceAccounts[types.ServiceID(id)].StorageDict {
		ks = append(ks, k)
	}
	for _, e := range *x.StorageKeyVal {
		if p, ok := r.pool[e.Key]; ok && p.id == id && p.stor != nil {
			ks = append(ks, string(p.stor.K))
		}
	}
	sortStrings(ks)
	out := make([][]byte, len(ks))
	for i, k := range ks {
		out[i] = []byte(k)
	}
	return out
}

func (r *Runner) lookupKeys(id uint32) []lkey {
	x := &r.Add.ResultContextX
	var ks []lkey
	for k := range x.PartialState.ServiceAccounts[types.ServiceID(id)].LookupDict {
		ks = append(ks, k)
	}
	for _, e := range *x.StorageKeyVal {
		if p, ok := r.pool[e.Key]; ok && p.id == id && p.look != nil {
			ks = append(ks, lkey{Hash: types.OpaqueHash(p.look.H), Length: types.U32(p.look.Z)})
		}
	}
	for i := 1; i < len(ks); i++ {
		for j := i; j > 0 && lkLess(ks[j], ks[j-1]); j-- {
			ks[j], ks[j-1] = ks[j-1], ks[j]
		}
	}
	return ks
}

func lkLess(a, b lkey) bool {
	if a.Hash != b.Hash {
		return string(a.Hash[:]) < string(b.Hash[:])
	}
	return a.Length < b.Length
}

func sortStrings(s []string) {
	for i := 1; i < len(s); i++ {
		for j := i; j > 0 && s[j] < s[j-1]; j-- {
			s[j], s[j-1] = s[j-1], s[j]
		}
	}
}

// ---- direct sweeps of the threshold arithmetic ----

func ThresholdCases(rng *h.Rng, tier string, emit func(string), st h.Stats) {
	var items []uint64
	for d := uint64(0); d < 24; d++ {
		items = append(items, d, 429496718+d, (1<<32)-1-d, (1<<31)-12+d, 858993448+d) // 2^32/10 = 429496729.6, 2^33/10
	}
	var octs []uint64
	for d := uint64(0); d < 6; d++ {
		octs = append(octs, d, (1<<32)-3+d, (1<<63)-3+d, ^uint64(0)-d, ^uint64(0)-100-d*40, ^uint64(0)-(10*((1<<32)-1)+100)-3+d)
	}
	nr := 40
	if tier == "thorough" {
		nr = 400
	}
	for i := 0; i < nr; i++ {
		items = append(items, rng.U64()>>32, rng.U64()>>uint(32+rng.Intn(32)))
		octs = append(octs, rng.U64()>>uint(rng.Intn(64)))
	}
	for _, i := range items {
		for _, o := range octs {
			raw := ExactThreshold(uint32(i), o, 0)
			var gs []uint64
			gs = append(gs, 0)
			if raw.IsUint64() {
				v := raw.Uint64()
				gs = append(gs, v, v-min64(v, 1), v+1, v-min64(v, 2))
			} else {
				low := new(big.Int).And(raw, new(big.Int).SetUint64(^uint64(0))).Uint64() // raw - 2^64
				gs = append(gs, ^uint64(0), low, low+1, low-min64(low, 1), low+2)
			}
			gs = append(gs, boundary64(rng))
			for _, g := range gs {
				emit(fmt.Sprintf("thr %d %d %d", i, o, g))
				st.Inc("thr")
				if raw.IsUint64() {
					st.Inc("thr-fits")
				} else {
					st.Inc("thr-above-u64")
				}
			}
		}
	}
	// the same arithmetic seen through the info host call
	for k := 0; k < len(items); k += 3 {
		i := items[k]
		o := octs[rng.Intn(len(octs))]
		raw := ExactThreshold(uint32(i), o, 0)
		g := uint64(0)
		if raw.IsUint64() && rng.Bool() {
			g = around(rng, raw.Uint64())
		}
		emit(fmt.Sprintf("infox %d %d %d %d", boundary64(rng), i, o, g))
		st.Inc("infox")
	}
	for kl := 0; kl < 40; kl += 3 {
		for vl := 0; vl < 5000; vl += 613 {
			emit(fmt.Sprintf("fps %d %d", kl, vl))
			st.Inc("fps")
		}
	}
	for _, z := range []uint64{0, 1, 80, 81, 1 << 16, 1<<32 - 1, 1<<32 - 82, 1 << 31} {
		emit(fmt.Sprintf("fpl %d", z))
		st.Inc("fpl")
	}
}

// DerCases: GetServiceAccountDerivatives on random small accounts.
func DerCases(rng *h.Rng, n int, emit func(string), st h.Stats) {
	for i := 0; i < n; i++ {
		a := Acct{ID: uint32(rng.Intn(1000)), Code: randHash(rng)}
		genStorage(rng, &a, false)
		genLookups(rng, &a, 100, 32, false)
		genGratis(rng, &a)
		emit("der " + a.Tokens())
		st.Inc("der")
	}
}
