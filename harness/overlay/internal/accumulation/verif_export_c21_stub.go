//go:build verif && !vi_accumulation_c21

package accumulation

import (
	"github.com/New-JAMneration/JAM-Protocol/internal/blockchain"
	"github.com/New-JAMneration/JAM-Protocol/internal/types"
)

// add-only exports for the C21 harness (accumulation queue selection and ordering)

// VerifC21UpdateXi runs the unexported updateXi (GP 12.31-12.32) with the given n.
func VerifC21UpdateXi(cs *blockchain.ChainState, n types.U64) {
	panic("VERIF-UNAVAILABLE: VerifC21UpdateXi")
}

// VerifC21UpdateVartheta runs the unexported updateVartheta (GP 12.33).
func VerifC21UpdateVartheta(cs *blockchain.ChainState) {
	panic("VERIF-UNAVAILABLE: VerifC21UpdateVartheta")
}
