//go:build verif && !vi_accumulation_c22

package accumulation


// VerifExecuteOuter runs (12.20)-(12.26): outer accumulation from the singleton's prior state, partial
// state written to the posterior state, θ′ derived from b. Overlay only.
func VerifExecuteOuter() (OuterAccumulationOutput, error) {
	panic("VERIF-UNAVAILABLE: VerifExecuteOuter")
}
