//go:build verif && !vi_blockchain_c16

package blockchain

// Add-only exports for the C16 harness (overlay only).

// VerifNewCacheChainState returns a ChainState that carries only a fresh key-level cache: the
// cached state-root path (ComputeStateRootWithCache / ClearKeyLevelCache) uses nothing else.
func VerifNewCacheChainState() *ChainState {
	panic("VERIF-UNAVAILABLE: VerifNewCacheChainState")
}

// VerifKeyCacheLen reports KeyLevelCache.Len().
func (cs *ChainState) VerifKeyCacheLen() int {
	panic("VERIF-UNAVAILABLE: VerifKeyCacheLen")
}
