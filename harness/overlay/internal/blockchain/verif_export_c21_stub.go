//go:build verif && !vi_blockchain_c21

package blockchain

import "github.com/New-JAMneration/JAM-Protocol/internal/types"

// VerifC21SetLatestHeader makes `header` the header of the latest block (appending a block when
// there is none) without touching any database: the accumulation code reads only Header.Slot.
func (cs *ChainState) VerifC21SetLatestHeader(header types.Header) {
	panic("VERIF-UNAVAILABLE: VerifC21SetLatestHeader")
}
