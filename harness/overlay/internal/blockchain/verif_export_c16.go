//go:build verif && vi_blockchain_c16

package blockchain

// Add-only exports for the C16 harness (overlay only).

// VerifNewCacheChainState returns a ChainState that carries only a fresh key-level cache: the
// cached state-root path (ComputeStateRootWithCache / ClearKeyLevelCache) uses nothing else.
func VerifNewCacheChainState() *ChainState {
	return &ChainState{keyLevelCache: NewKeyLevelCache()}
}

// VerifKeyCacheLen reports KeyLevelCache.Len().
func (cs *ChainState) VerifKeyCacheLen() int { return cs.keyLevelCache.Len() }
