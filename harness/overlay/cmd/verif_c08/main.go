//go:build verif

// C08 harness: token conservation during accumulation. Random call sequences (creation, transfer,
// ejection, upgrade, checkpoint dominate; see internal/verifacc) run on the real host-call functions
// after the incoming-transfer credit of the real PVM.Psi_A.
// output per case: "C <accounts> <transfers>" after the credit, then per call
// "<register 7> <id:balance:items:octets:recomputed items:recomputed octets,...> <from>to:amount:gas:memo0,...>",
// then the full final contexts (x and y) with exact totals.
package main

import (
	"github.com/New-JAMneration/JAM-Protocol/internal/verifacc"
	h "github.com/New-JAMneration/JAM-Protocol/internal/verifh"
)

func gen(rng *h.Rng, tier string, emit func(string)) {
	st := h.Stats{}
	n := 8000
	if tier == "thorough" {
		n = 300000
	}
	for i := 0; i < n; i++ {
		nops := 4 + rng.Intn(14)
		c := verifacc.GenSeq(rng.Fork(), verifacc.ProfileC08, nops, st)
		emit(c.Line())
		st.Inc("seq")
	}
	h.EmitStats(emit, st)
}

func main() { h.Main(gen, verifacc.Run) }
