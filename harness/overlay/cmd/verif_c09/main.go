//go:build verif

// C09 harness: storage footprint and threshold accounting. Random call sequences (write, solicit,
// forget, new, info dominate) on the real host-call functions, recorded counters compared with the
// values recomputed from the actual dictionaries (real CalcKeys/CalcOctets) plus entries still held
// as raw key-values; direct sweeps of CalcThresholdBalance, the item footprints,
// GetServiceAccountDerivatives and the threshold reported by the info host call.
package main

import (
	"github.com/New-JAMneration/JAM-Protocol/internal/verifacc"
	h "github.com/New-JAMneration/JAM-Protocol/internal/verifh"
)

func gen(rng *h.Rng, tier string, emit func(string)) {
	st := h.Stats{}
	verifacc.ThresholdCases(rng.Fork(), tier, emit, st)
	nd, n := 1000, 5000
	if tier == "thorough" {
		nd, n = 20000, 250000
	}
	verifacc.DerCases(rng.Fork(), nd, emit, st)
	for i := 0; i < n; i++ {
		nops := 5 + rng.Intn(16)
		c := verifacc.GenSeq(rng.Fork(), verifacc.ProfileC09, nops, st)
		emit(c.Line())
		st.Inc("seq")
	}
	h.EmitStats(emit, st)
}

func main() { h.Main(gen, verifacc.Run) }
