//go:build verif

// C22 harness: ParallelizedAccumulation (∆*) on generated rounds, run repeatedly under different
// GOMAXPROCS / worker limits, against the model combination of the single-service results.
// input : acc <seed> <nserv> <maxk> <runs>
// output: D1{ <sid>;<gas>;<yield|->;<transfers>;<accounts>;<bless>;<assign>;<desig>;<create>;<always>;<iota>;<queues> ! ... }
//         CTX{ d=<accounts> m= v= r= a=<..> s=<service set ascending> }  RUN{...} RUN{...} ...
// where RUN = u=[s:gas,..] b=[s:hash,..] t=[from:to:amt:memo2:gas,..] d=[id:tok,..] m a v r z i q kv
package main

import (
	"fmt"
	"os"
	"runtime"
	"sort"
	"strings"

	"github.com/New-JAMneration/JAM-Protocol/internal/accumulation"
	"github.com/New-JAMneration/JAM-Protocol/internal/blockchain"
	"github.com/New-JAMneration/JAM-Protocol/internal/types"
	"github.com/New-JAMneration/JAM-Protocol/internal/utilities/hash"
	h "github.com/New-JAMneration/JAM-Protocol/internal/verifh"
)

func le(v uint64, n int) []byte {
	b := make([]byte, n)
	for i := 0; i < n; i++ {
		b[i] = byte(v >> (8 * uint(i)))
	}
	return b
}

// ---- a tiny assembler: straight-line accumulate programs -------------------------------------------
type asm struct {
	code []byte
	mask []bool
}

func (a *asm) ins(b ...byte) {
	for i := range b {
		a.mask = append(a.mask, i == 0)
	}
	a.code = append(a.code, b...)
}
func (a *asm) loadImm(reg byte, v uint32) { a.ins(append([]byte{51, reg}, le(uint64(v), 4)...)...) }
func (a *asm) ecalli(id byte)              { a.ins(10, id) }
func (a *asm) halt()                       { a.ins(50, 0) } // jump_ind r0, 0 : r0 = 2^32-2^16 at entry
func (a *asm) trap()                       { a.ins(0) }

func (a *asm) blob() []byte {
	n := len(a.code)
	mb := make([]byte, (n+7)/8)
	for i, m := range a.mask {
		if m {
			mb[i/8] |= 1 << uint(i%8)
		}
	}
	enc, _ := types.NewEncoder().EncodeUint(uint64(n))
	out := []byte{0, 0} // |j| = 0, z = 0
	out = append(out, enc...)
	out = append(out, a.code...)
	out = append(out, mb...)
	return out
}

func standard(w []byte, c []byte) []byte {
	var p []byte
	p = append(p, le(0, 3)...)
	p = append(p, le(uint64(len(w)), 3)...)
	p = append(p, le(0, 2)...)
	p = append(p, le(4096, 3)...)
	p = append(p, w...)
	p = append(p, le(uint64(len(c)), 4)...)
	p = append(p, c...)
	return p
}

type xfer struct {
	to  uint32
	amt uint32
}

// program: prologue so that pc 5 starts a block; k transfers (memo i), optional yield, halt or trap
func program(self uint32, xs []xfer, yield bool, endTrap bool) []byte {
	a := &asm{}
	a.trap()
	a.ins(1)
	a.ins(1)
	a.ins(1)
	a.ins(1)
	var w []byte
	const rw = 0x20000
	for i, x := range xs {
		memo := make([]byte, 128)
		memo[0] = byte(i)
		memo[1] = byte(self % 251)
		off := len(w)
		w = append(w, memo...)
		a.loadImm(7, x.to)
		a.loadImm(8, x.amt)
		a.loadImm(9, 10)
		a.loadImm(10, uint32(rw+off))
		a.ecalli(20)
	}
	if yield {
		off := len(w)
		y := make([]byte, 32)
		y[0] = 0xEE
		y[1] = byte(self % 251)
		w = append(w, y...)
		// the yielded hash carries the remaining gas, so that a service accumulated in two rounds of one
		// block yields two different hashes
		a.ecalli(0)
		a.ins(append([]byte{62, 7}, le(uint64(rw+off+8), 4)...)...)
		a.loadImm(7, uint32(rw+off))
		a.ecalli(25)
	}
	a.loadImm(7, 0)
	a.loadImm(8, 0)
	if endTrap {
		a.trap()
	} else {
		a.halt()
	}
	return standard(w, a.blob())
}

func mkAccount(code []byte, balance uint64) types.ServiceAccount {
	acc := types.ServiceAccount{
		PreimageLookup: types.PreimagesMapEntry{},
		LookupDict:     types.LookupMetaMapEntry{},
		StorageDict:    types.Storage{},
	}
	acc.ServiceInfo.Balance = types.U64(balance)
	if code != nil {
		mc := types.MetaCode{Metadata: []byte{0x41}, Code: code}
		enc, err := types.NewEncoder().Encode(&mc)
		if err != nil {
			panic("verifh: metacode " + err.Error())
		}
		hh := hash.Blake2bHash(enc)
		acc.ServiceInfo.CodeHash = hh
		acc.PreimageLookup[hh] = enc
		acc.LookupDict[types.LookupMetaMapkey{Hash: hh, Length: types.U32(len(enc))}] = types.TimeSlotSet{0}
		acc.ServiceInfo.Items = 2
		acc.ServiceInfo.Bytes = types.U64(81 + len(enc))
	}
	return acc
}

func yTok(x types.OpaqueHash) string { return h.Hex(append(append([]byte{}, x[:2]...), x[8:12]...)) }

func tok(parts ...any) string {
	s := fmt.Sprint(parts...)
	d := hash.Blake2bHash([]byte(s))
	return h.Hex(d[:6])
}

func accountTok(a types.ServiceAccount) string {
	var sb strings.Builder
	fmt.Fprintf(&sb, "%+v|", a.ServiceInfo)
	var ks []string
	for k, v := range a.StorageDict {
		ks = append(ks, fmt.Sprintf("s%x=%x", k, v))
	}
	for k, v := range a.PreimageLookup {
		ks = append(ks, fmt.Sprintf("p%x=%d", k, len(v)))
	}
	for k, v := range a.LookupDict {
		ks = append(ks, fmt.Sprintf("l%x/%d=%v", k.Hash, k.Length, v))
	}
	sort.Strings(ks)
	sb.WriteString(strings.Join(ks, ","))
	return tok(sb.String())
}

func accountsStr(d types.ServiceAccountState) string {
	ids := make([]int, 0, len(d))
	for id := range d {
		ids = append(ids, int(id))
	}
	sort.Ints(ids)
	var p []string
	for _, id := range ids {
		p = append(p, fmt.Sprintf("%d:%s", id, accountTok(d[types.ServiceID(id)])))
	}
	if len(p) == 0 {
		return "-"
	}
	return strings.Join(p, ",")
}

func transfersStr(ts []types.DeferredTransfer) string {
	var p []string
	for _, t := range ts {
		p = append(p, fmt.Sprintf("%d:%d:%d:%s:%d", t.SenderID, t.ReceiverID, t.Balance, h.Hex(t.Memo[:2]), t.GasLimit))
	}
	if len(p) == 0 {
		return "-"
	}
	return strings.Join(p, ",")
}

func idsStr(l types.ServiceIDList) string {
	var p []string
	for _, x := range l {
		p = append(p, fmt.Sprint(uint32(x)))
	}
	if len(p) == 0 {
		return "-"
	}
	return strings.Join(p, ",")
}

func alwaysTok(z types.AlwaysAccumulateMap) string {
	var p []string
	for k, v := range z {
		p = append(p, fmt.Sprintf("%d=%d", k, v))
	}
	sort.Strings(p)
	return tok(strings.Join(p, ","))
}

func queuesStr(q types.AuthQueues) string {
	var p []string
	for _, x := range q {
		p = append(p, tok(fmt.Sprint(x)))
	}
	if len(p) == 0 {
		return "-"
	}
	return strings.Join(p, ",")
}

type scenario struct {
	input accumulation.ParallelizedAccumulationInput
	set   []uint32 // the service set s, ascending
	kv    types.StateKeyVals
}

func build(seed uint64, nserv, maxk int, hotYields bool) scenario {
	rng := h.NewRng(seed)
	types.SetTinyMode()
	ids := map[uint32]bool{}
	var order []uint32
	big := rng.Chance(1, 2) // realistic 32-bit service indices for half of the rounds
	for len(order) < nserv {
		id := uint32(1 + rng.Intn(90))
		if big && rng.Chance(3, 4) {
			id = uint32(1<<21 + rng.Intn(1<<31))
		}
		if !ids[id] {
			ids[id] = true
			order = append(order, id)
		}
	}
	d := types.ServiceAccountState{}
	// receivers are drawn from existing services (mostly) and a non-existing one (WHO)
	pickRecv := func() uint32 {
		if rng.Chance(1, 15) {
			return 200 + uint32(rng.Intn(5))
		}
		return order[rng.Intn(len(order))]
	}
	hot := order[rng.Intn(len(order))] // a receiver that gets more than a dozen transfers
	for _, id := range order {
		switch rng.Intn(6) {
		case 0:
			d[types.ServiceID(id)] = mkAccount(nil, 1_000_000) // no code
		default:
			k := rng.Intn(maxk + 1)
			xs := make([]xfer, k)
			for i := range xs {
				to := pickRecv()
				if rng.Chance(1, 2) {
					to = hot
				}
				xs[i] = xfer{to: to, amt: uint32(1 + rng.Intn(1000))}
			}
			d[types.ServiceID(id)] = mkAccount(program(id, xs, rng.Chance(1, 2), rng.Chance(1, 8)), 1_000_000_000)
		}
	}
	if hotYields {
		// the hot receiver yields, has work of its own and receives transfers: it is accumulated in two rounds
		d[types.ServiceID(hot)] = mkAccount(program(hot, nil, true, false), 1_000_000_000)
	}
	pick := func() types.ServiceID { return types.ServiceID(order[rng.Intn(len(order))]) }
	ps := types.PartialStateSet{
		ServiceAccounts: d,
		ValidatorKeys:   make(types.ValidatorsData, types.ValidatorsCount),
		Authorizers:     make(types.AuthQueues, types.CoresCount),
		Bless:           pick(),
		Assign:          make(types.ServiceIDList, types.CoresCount),
		Designate:       pick(),
		CreateAcct:      pick(),
		AlwaysAccum:     types.AlwaysAccumulateMap{},
	}
	for c := range ps.Authorizers {
		ps.Authorizers[c] = make(types.AuthQueue, types.AuthQueueSize)
		ps.Authorizers[c][0][0] = byte(c + 1)
		ps.Assign[c] = pick()
	}
	if rng.Chance(1, 4) {
		ps.Bless = 250 // a manager that does not exist
	}
	f := types.AlwaysAccumulateMap{}
	for _, id := range order {
		if rng.Chance(1, 4) {
			f[types.ServiceID(id)] = 100_000
		}
	}
	// work reports: results for a random subset of services
	var reports []types.WorkReport
	nrep := 1 + rng.Intn(3)
	for r := 0; r < nrep; r++ {
		var wr types.WorkReport
		wr.PackageSpec.Hash[0] = byte(r + 1)
		nres := 1 + rng.Intn(3)
		for j := 0; j < nres; j++ {
			var res types.WorkResult
			res.ServiceID = pick()
			res.AccumulateGas = 200_000
			res.Result = types.WorkExecResult{}
			wr.Results = append(wr.Results, res)
		}
		if hotYields && r == 0 {
			var res types.WorkResult
			res.ServiceID = types.ServiceID(hot)
			res.AccumulateGas = 200_000
			wr.Results = append(wr.Results, res)
		}
		reports = append(reports, wr)
	}
	// incoming deferred transfers (from an earlier round): many to the hot receiver
	var ts []types.DeferredTransfer
	nt := rng.Intn(20)
	for i := 0; i < nt; i++ {
		var t types.DeferredTransfer
		t.SenderID = pick()
		t.ReceiverID = types.ServiceID(hot)
		if rng.Chance(1, 3) {
			t.ReceiverID = pick()
		}
		t.Balance = types.U64(rng.Intn(50))
		t.Memo[0] = byte(i)
		t.GasLimit = 50_000
		ts = append(ts, t)
	}
	in := accumulation.ParallelizedAccumulationInput{PartialStateSet: ps, DeferredTransfers: ts, WorkReports: reports, AlwaysAccumulateMap: f}
	// the service set s
	set := map[uint32]bool{}
	for _, w := range reports {
		for _, r := range w.Results {
			set[uint32(r.ServiceID)] = true
		}
	}
	for id := range f {
		set[uint32(id)] = true
	}
	for _, t := range ts {
		set[uint32(t.ReceiverID)] = true
	}
	var sl []uint32
	for id := range set {
		sl = append(sl, id)
	}
	sort.Slice(sl, func(i, j int) bool { return sl[i] < sl[j] })
	// a few unmatched key-values in the global store
	var kv types.StateKeyVals
	for i := 0; i < rng.Intn(4); i++ {
		var k types.StateKeyVal
		k.Key[0] = byte(0x70 + i)
		k.Key[5] = byte(rng.Intn(256))
		k.Value = rng.Bytes(3)
		kv = append(kv, k)
	}
	return scenario{input: in, set: sl, kv: kv}
}

func cloneInput(in accumulation.ParallelizedAccumulationInput) accumulation.ParallelizedAccumulationInput {
	out := in
	out.PartialStateSet = in.PartialStateSet.DeepCopy()
	out.DeferredTransfers = append([]types.DeferredTransfer(nil), in.DeferredTransfers...)
	out.WorkReports = append([]types.WorkReport(nil), in.WorkReports...)
	f := types.AlwaysAccumulateMap{}
	for k, v := range in.AlwaysAccumulateMap {
		f[k] = v
	}
	out.AlwaysAccumulateMap = f
	return out
}

func kvStr(kv types.StateKeyVals) string {
	var p []string
	for _, k := range kv {
		p = append(p, h.Hex(k.Key[:6])+"="+h.Hex(k.Value))
	}
	sort.Strings(p)
	if len(p) == 0 {
		return "-"
	}
	return strings.Join(p, ",")
}

func gen(rng *h.Rng, tier string, emit func(string)) {
	st := h.Stats{}
	n := 150
	if tier == "thorough" {
		n = 3000
	}
	for i := 0; i < n; i++ {
		nserv := 2 + rng.Intn(9)
		maxk := []int{0, 3, 16, 20}[rng.Intn(4)]
		runs := 3
		if tier == "thorough" {
			runs = 5
		}
		emit(fmt.Sprintf("acc %d %d %d %d", rng.U64()>>1, nserv, maxk, runs))
		if i%2 == 0 {
			emit(fmt.Sprintf("outer %d %d %d %d", rng.U64()>>1, nserv, maxk, runs+2))
			st.Inc("outer")
		}
		st.Inc(fmt.Sprintf("nserv-%d", nserv))
		st.Inc(fmt.Sprintf("maxk-%d", maxk))
	}
	h.EmitStats(emit, st)
}

func run(input string) string {
	f := strings.Fields(input)
	seed, nserv, maxk, runs := h.U(f[1]), h.I(f[2]), h.I(f[3]), h.I(f[4])
	sc := build(seed, nserv, maxk, f[0] == "outer" && seed%3 != 0)
	cs := blockchain.GetInstance()
	var sb strings.Builder
	if f[0] == "outer" {
		return runOuter(sc, runs)
	}
	// ---- ∆1 per service, each on its own deep copy (the oracle D1 of the model)
	need := map[uint32]bool{}
	for _, s := range sc.set {
		need[s] = true
	}
	ps := sc.input.PartialStateSet
	need[uint32(ps.Bless)] = true
	need[uint32(ps.Designate)] = true
	need[uint32(ps.CreateAcct)] = true
	for _, a := range ps.Assign {
		need[uint32(a)] = true
	}
	var all []uint32
	for s := range need {
		all = append(all, s)
	}
	sort.Slice(all, func(i, j int) bool { return all[i] < all[j] })
	sb.WriteString("D1{")
	for i, s := range all {
		cs.SetPostStateUnmatchedKeyVals(sc.kv.DeepCopy())
		in := cloneInput(sc.input)
		single := accumulation.SingleServiceAccumulationInput{PartialStateSet: in.PartialStateSet, DeferredTransfers: in.DeferredTransfers,
			WorkReports: in.WorkReports, AlwaysAccumulateMap: in.AlwaysAccumulateMap}
		out, err := accumulation.SingleServiceAccumulation(single.CloneForService(types.ServiceID(s)))
		if err != nil {
			return "err-single " + err.Error()
		}
		if i > 0 {
			sb.WriteString(" ! ")
		}
		y := "-"
		if out.AccumulationOutput != nil {
			y = yTok(*out.AccumulationOutput)
		}
		o := out.PartialStateSet
		fmt.Fprintf(&sb, "%d;%d;%s;%s;%s;%d;%s;%d;%d;%s;%s;%s", s, out.GasUsed, y, transfersStr(out.DeferredTransfers),
			accountsStr(o.ServiceAccounts), o.Bless, idsStr(o.Assign), o.Designate, o.CreateAcct, alwaysTok(o.AlwaysAccum),
			tok(fmt.Sprint(o.ValidatorKeys)), queuesStr(o.Authorizers))
	}
	sb.WriteString("} CTX{")
	var sl []string
	for _, s := range sc.set {
		sl = append(sl, fmt.Sprint(s))
	}
	if len(sl) == 0 {
		sl = []string{"-"}
	}
	fmt.Fprintf(&sb, "d=%s m=%d v=%d r=%d a=%s s=%s}", accountsStr(ps.ServiceAccounts), ps.Bless, ps.Designate, ps.CreateAcct,
		idsStr(ps.Assign), strings.Join(sl, ","))
	// ---- ∆* several times under different scheduling parameters
	procs := []int{16, 1, 4, 2, 8}
	workers := []int{32, 1, 2, 3, 64}
	oldProcs := runtime.GOMAXPROCS(0)
	oldWorkers := types.MaxWorkers
	defer func() { runtime.GOMAXPROCS(oldProcs); types.MaxWorkers = oldWorkers }()
	for r := 0; r < runs; r++ {
		runtime.GOMAXPROCS(procs[r%len(procs)])
		types.MaxWorkers = workers[r%len(workers)]
		cs.SetPostStateUnmatchedKeyVals(sc.kv.DeepCopy())
		out, err := accumulation.ParallelizedAccumulation(cloneInput(sc.input))
		if err != nil {
			fmt.Fprintf(&sb, " RUN{err}")
			continue
		}
		var u, b []string
		for _, x := range out.ServiceGasUsedList {
			u = append(u, fmt.Sprintf("%d:%d", x.ServiceID, x.Gas))
		}
		for x := range out.AccumulatedServiceOutput {
			b = append(b, fmt.Sprintf("%d:%s", x.ServiceID, yTok(x.Hash)))
		}
		sort.Slice(b, func(i, j int) bool {
			var a1, a2 int
			fmt.Sscanf(b[i], "%d:", &a1)
			fmt.Sscanf(b[j], "%d:", &a2)
			return a1 < a2
		})
		us, bs := strings.Join(u, ","), strings.Join(b, ",")
		if us == "" {
			us = "-"
		}
		if bs == "" {
			bs = "-"
		}
		o := out.PartialStateSet
		fmt.Fprintf(&sb, " RUN{u=%s b=%s t=%s d=%s m=%d a=%s v=%d r=%d z=%s i=%s q=%s}", us, bs, transfersStr(out.DeferredTransfers),
			accountsStr(o.ServiceAccounts), o.Bless, idsStr(o.Assign), o.Designate, o.CreateAcct, alwaysTok(o.AlwaysAccum),
			tok(fmt.Sprint(o.ValidatorKeys)), queuesStr(o.Authorizers))
	}
	return sb.String()
}

// runOuter drives the whole block-level accumulation (∆+ over several rounds, statistics, θ′) through
// accumulation.DeferredTransfers on the singleton, several times from the identical prior state.
// Every run must produce the identical posterior: the expected output repeats the first run.
func runOuter(sc scenario, runs int) string {
	cs := blockchain.GetInstance()
	var sb strings.Builder
	procs := []int{16, 1, 4, 2, 8, 3, 6}
	workers := []int{32, 1, 2, 3, 64, 5, 7}
	oldProcs := runtime.GOMAXPROCS(0)
	oldWorkers := types.MaxWorkers
	defer func() { runtime.GOMAXPROCS(oldProcs); types.MaxWorkers = oldWorkers }()
	for r := 0; r < runs; r++ {
		runtime.GOMAXPROCS(procs[r%len(procs)])
		types.MaxWorkers = workers[r%len(workers)]
		in := cloneInput(sc.input)
		ps := in.PartialStateSet
		// every service that has work gets gas through the always-accumulate map as well
		chi := types.Privileges{Bless: ps.Bless, Assign: ps.Assign, Designate: ps.Designate, CreateAcct: ps.CreateAcct, AlwaysAccum: in.AlwaysAccumulateMap}
		cs.GetPriorStates().SetDelta(ps.ServiceAccounts)
		cs.GetPriorStates().SetChi(chi)
		cs.GetPriorStates().SetIota(ps.ValidatorKeys)
		cs.GetPriorStates().SetVarphi(ps.Authorizers)
		cs.GetIntermediateStates().SetAccumulatableWorkReports(in.WorkReports)
		cs.SetPostStateUnmatchedKeyVals(sc.kv.DeepCopy())
		out := h.Guard(func() string {
			oo, err := accumulation.VerifExecuteOuter()
			if err != nil {
				return "err"
			}
			var us []string
			for _, x := range oo.ServiceGasUsedList {
				us = append(us, fmt.Sprintf("%d:%d", x.ServiceID, x.Gas))
			}
			post := cs.GetPosteriorStates()
			var th []string
			for _, x := range post.GetLastAccOut() {
				th = append(th, fmt.Sprintf("%d:%s", x.ServiceID, yTok(x.Hash)))
			}
			ths := strings.Join(th, ",")
			if ths == "" {
				ths = "-"
			}
			sp := us
			sp = append(sp, fmt.Sprintf("n=%d", oo.NumberOfWorkResultsAccumulated))
			chiP := post.GetChi()
			return fmt.Sprintf("theta=%s d=%s chi=%d/%s/%d/%d/%s stats=%s kv=%s", ths, accountsStr(post.GetDelta()), chiP.Bless, idsStr(chiP.Assign),
				chiP.Designate, chiP.CreateAcct, alwaysTok(chiP.AlwaysAccum), tok(strings.Join(sp, ",")), kvStr(cs.GetPostStateUnmatchedKeyValsRef()))
		})
		fmt.Fprintf(&sb, "RUN{%s} ", out)
	}
	return strings.TrimSpace(sb.String())
}

func main() {
	os.Setenv("JAM_FUZZ", "1")
	h.Main(gen, run)
}
