//go:build verif

// C29 harness: validator grid (grid.go) and preferred initiator (manager.go).
//
//	sqrt <n>                          validator.ComputeWidth(n) (n may be negative)            -> w
//	sqrange <lo> <hi>                 ComputeWidth on every n in [lo,hi]: w(lo) and every change -> w;n:w;...
//	sqcheck <k0> <k1>                 for every k in [k0,k1): width(k*k-1)=k-1, width(k*k)=k, width(k*k+1)=k -> ok | fail <k>
//	nbrs <V> <i>                      GridMapper{Current: V validators}.NeighborIndicesInEpoch(i) -> csv
//	row  <V> <a>                      IsNeighborInEpoch(a, b) for b = -1, 0, ..., V               -> bit string (V+2 chars)
//	all  <prev> <cur> <next> <i>      AllNeighborValidators(i) and ValidatorManager.GetNeighbors   -> ids csv
//	isn  <prev> <cur> <next> <i> <k>  ValidatorManager{SelfIndex: i}.IsNeighbor(key k)             -> true|false
//	cross <prev> <cur> <next> <i> <k> IsSameIndexCrossEpoch(i, key k)                              -> true|false
//	find <cur> <k>                    FindIndex(key k)                                             -> index | none
//	pi   <a hex32> <b hex32>          PreferredInitiator(a,b) PreferredInitiator(b,a)              -> hex hex
//
// Validator sets are csv lists of numeric ids ("-" = empty set); the Ed25519 key of id x is an injective
// 32-byte image of x (keyOf). Indices may be negative (Go int).
package main

import (
	"encoding/binary"
	"fmt"
	"strconv"
	"strings"

	"github.com/New-JAMneration/JAM-Protocol/internal/networking/validator"
	"github.com/New-JAMneration/JAM-Protocol/internal/types"
	h "github.com/New-JAMneration/JAM-Protocol/internal/verifh"
	"github.com/New-JAMneration/JAM-Protocol/logger"
)

func keyOf(id uint64) (k types.Ed25519Public) {
	binary.LittleEndian.PutUint64(k[:8], id)
	for i := 8; i < 32; i++ {
		k[i] = byte((id + 1) * uint64(2*i+1) >> 3)
	}
	return
}

func idOf(k types.Ed25519Public) uint64 {
	id := binary.LittleEndian.Uint64(k[:8])
	if keyOf(id) != k {
		panic("verifh: key is not the image of an id")
	}
	return id
}

func parseIds(s string) []uint64 {
	if s == "-" || s == "" {
		return nil
	}
	parts := strings.Split(s, ",")
	out := make([]uint64, len(parts))
	for i, p := range parts {
		out[i] = h.U(p)
	}
	return out
}

func setOf(s string) types.ValidatorsData {
	ids := parseIds(s)
	if ids == nil {
		return nil
	}
	v := make(types.ValidatorsData, len(ids))
	for i, id := range ids {
		v[i].Ed25519 = keyOf(id)
		v[i].Bandersnatch[0] = byte(i) // unrelated fields vary by position
		v[i].Metadata[3] = byte(id)
	}
	return v
}

func idsCsv(v []uint64) string {
	if len(v) == 0 {
		return "-"
	}
	var b strings.Builder
	for i, x := range v {
		if i > 0 {
			b.WriteByte(',')
		}
		b.WriteString(strconv.FormatUint(x, 10))
	}
	return b.String()
}

func intsCsv(v []int) string {
	if len(v) == 0 {
		return "-"
	}
	var b strings.Builder
	for i, x := range v {
		if i > 0 {
			b.WriteByte(',')
		}
		b.WriteString(strconv.Itoa(x))
	}
	return b.String()
}

func atoi(s string) int {
	v, err := strconv.ParseInt(s, 10, 64)
	if err != nil {
		panic("verifh: bad int token " + s)
	}
	return int(v)
}

// ---------------------------------------------------------------------------------------------
func isqrt(n int) int { // exact integer square root, used only to pick interesting indices
	if n <= 0 {
		return 0
	}
	w := 0
	for (w+1)*(w+1) <= n {
		w++
	}
	return w
}

func interestingIndices(rng *h.Rng, v int, k int) []int {
	w := isqrt(v)
	if w < 1 {
		w = 1
	}
	cand := []int{0, v - 1, w - 1, w, w*w - 1, w * w, v - w, v / 2, 1}
	out := []int{}
	for len(out) < k {
		var c int
		if rng.Chance(1, 2) {
			c = cand[rng.Intn(len(cand))]
		} else {
			c = rng.Intn(v)
		}
		if c >= 0 && c < v {
			out = append(out, c)
		}
	}
	return out
}

// three validator sets of sizes np, nc, nn with realistic overlap: most validators persist, some at
// the same index, some at a different index; optionally duplicate keys inside the current set
func genSets(rng *h.Rng, np, nc, nn int) (string, string, string) {
	cur := make([]uint64, nc)
	for i := range cur {
		cur[i] = uint64(1000 + i)
	}
	if nc > 1 && rng.Chance(1, 6) { // duplicate keys (e.g. zeroed offender keys)
		for k := 0; k < 1+rng.Intn(3); k++ {
			cur[rng.Intn(nc)] = cur[rng.Intn(nc)]
		}
	}
	derive := func(n int, fresh uint64) []uint64 {
		out := make([]uint64, n)
		shift := 0
		if rng.Chance(1, 2) && nc > 0 {
			shift = rng.Intn(nc)
		}
		for i := range out {
			switch {
			case nc > 0 && rng.Chance(6, 10):
				out[i] = cur[(i+shift)%nc] // persisting validator (same index when shift = 0)
			case nc > 0 && rng.Chance(1, 2):
				out[i] = cur[rng.Intn(nc)] // persisting validator at an unrelated index
			default:
				out[i] = fresh + uint64(i)
			}
		}
		return out
	}
	return idsCsv(derive(np, 5000)), idsCsv(cur), idsCsv(derive(nn, 9000))
}

func gen(rng *h.Rng, tier string, emit func(string)) {
	st := h.Stats{}
	thorough := tier == "thorough"
	mul := 1
	if thorough {
		mul = 8
	}
	// --- width: every count 0..1100 one by one, negatives, exhaustive ranges, perfect squares
	for n := -3; n <= 1100; n++ {
		emit(fmt.Sprintf("sqrt %d", n))
		st.Inc("sqrt")
	}
	for _, n := range []int64{-1 << 62, -1 << 31, 1<<31 - 1, 1 << 31, 1<<32 - 1, 1 << 32, 1<<52 - 1} {
		emit(fmt.Sprintf("sqrt %d", n))
		st.Inc("sqrt")
	}
	top := 1 << 16
	if thorough {
		top = 1 << 24
	}
	for lo := 0; lo < top; lo += 1 << 14 {
		emit(fmt.Sprintf("sqrange %d %d", lo, lo+1<<14))
		st["sqrange-values"] += 1<<14 + 1
	}
	const kmax = 1 << 26 // k*k < 2^52 for k < 2^26
	if thorough {
		for k0 := 1; k0 < kmax; k0 += 1 << 20 {
			emit(fmt.Sprintf("sqcheck %d %d", k0, min(k0+1<<20, kmax)))
			st["sqcheck-squares"] += min(k0+1<<20, kmax) - k0
		}
	} else {
		emit(fmt.Sprintf("sqcheck 1 %d", 1<<16))
		st["sqcheck-squares"] += 1<<16 - 1
		emit(fmt.Sprintf("sqcheck %d %d", kmax-(1<<14), kmax))
		st["sqcheck-squares"] += 1 << 14
		for i := 0; i < 64; i++ {
			k0 := 1 + rng.Intn(kmax-5000)
			emit(fmt.Sprintf("sqcheck %d %d", k0, k0+4096))
			st["sqcheck-squares"] += 4096
		}
	}
	// --- in-epoch relation: all counts 0..1100; all index pairs for small counts, sampled for large
	small := 72
	if thorough {
		small = 200
	}
	for v := 0; v <= 1100; v++ {
		if v <= small {
			for a := -1; a <= v+1; a++ {
				emit(fmt.Sprintf("row %d %d", v, a))
				emit(fmt.Sprintf("nbrs %d %d", v, a))
				st.Inc("row-all-pairs")
				st.Inc("nbrs-small")
			}
			continue
		}
		for _, a := range interestingIndices(rng, v, 2*mul) {
			emit(fmt.Sprintf("row %d %d", v, a))
			st.Inc("row-sampled")
		}
		for _, a := range append(interestingIndices(rng, v, 3*mul), -1, v) {
			emit(fmt.Sprintf("nbrs %d %d", v, a))
			st.Inc("nbrs-sampled")
		}
	}
	// --- three epochs: neighbour validators, key-level test, cross-epoch rule, FindIndex
	for rep := 0; rep < 2500*mul; rep++ {
		nc := rng.Intn(30)
		if rng.Chance(1, 12) {
			nc = 0
		}
		np, nn := nc, nc
		if rng.Chance(1, 4) {
			np = rng.Intn(nc + 3)
		}
		if rng.Chance(1, 4) {
			nn = rng.Intn(nc + 3)
		}
		p, c, n := genSets(rng, np, nc, nn)
		self := rng.Intn(nc + 2)
		if rng.Chance(1, 20) {
			self = -1 - rng.Intn(2)
		}
		emit(fmt.Sprintf("all %s %s %s %d", p, c, n, self))
		st.Inc("all")
		// candidate keys: every distinct id of the three sets plus a stranger
		seen := map[uint64]bool{}
		ids := []uint64{424242}
		for _, s := range []string{p, c, n} {
			for _, id := range parseIds(s) {
				if !seen[id] {
					seen[id] = true
					ids = append(ids, id)
				}
			}
		}
		curIds := parseIds(c)
		for _, id := range ids {
			if len(ids) > 12 && !rng.Chance(12, len(ids)) {
				continue
			}
			if self >= 0 && self < len(curIds) && curIds[self] == id {
				// the node's own key: the property relates validators to *other* validators and says
				// nothing about a node asking whether it is its own neighbour; not generated
				st.Inc("isn-own-key-skipped")
				continue
			}
			emit(fmt.Sprintf("isn %s %s %s %d %d", p, c, n, self, id))
			st.Inc("isn")
			if rng.Chance(1, 4) {
				emit(fmt.Sprintf("cross %s %s %s %d %d", p, c, n, self, id))
				emit(fmt.Sprintf("find %s %d", c, id))
				st.Inc("cross")
				st.Inc("find")
			}
		}
	}
	// full-size sets (V = 1023) and the tiny set (V = 6)
	for rep := 0; rep < 12*mul; rep++ {
		v := 1023
		if rep%3 == 2 {
			v = 6
		}
		p, c, n := genSets(rng, v, v, v)
		for k := 0; k < 6; k++ {
			self := rng.Intn(v)
			emit(fmt.Sprintf("all %s %s %s %d", p, c, n, self))
			st.Inc("all-full")
			pi, ci, ni := parseIds(p), parseIds(c), parseIds(n)
			for _, id := range []uint64{pi[self], ni[self], ci[rng.Intn(v)], pi[rng.Intn(v)], ci[(self+31)%v], ci[(self+1)%v], 7} {
				if id == ci[self] {
					continue
				}
				emit(fmt.Sprintf("isn %s %s %s %d %d", p, c, n, self, id))
				st.Inc("isn-full")
			}
		}
	}
	// --- preferred initiator: random and adversarial key pairs
	pair := func(kind string, a, b []byte) {
		emit("pi " + h.Hex(a) + " " + h.Hex(b))
		st.Inc("pi-" + kind)
	}
	for rep := 0; rep < 3000*mul; rep++ {
		a := rng.Bytes(32)
		b := rng.Bytes(32)
		pair("random", a, b)
		pair("equal", a, append([]byte{}, a...))
		c := append([]byte{}, a...)
		c[31] ^= 0x80
		pair("last-high-bit", a, c) // differ only in the high bit of the last byte
		d := append([]byte{}, a...)
		d[31] ^= byte(1 + rng.Intn(127))
		pair("last-low-bits", a, d) // differ only in the low bits of the last byte
		e := append([]byte{}, a...)
		e[rng.Intn(31)] ^= byte(1 << uint(rng.Intn(8)))
		pair("one-bit", a, e) // one bit elsewhere
		f := append([]byte{}, a...)
		f[31] = byte(126 + rng.Intn(4)) // last byte around the 127/128 boundary
		g := append([]byte{}, b...)
		g[31] = byte(126 + rng.Intn(4))
		pair("boundary-127", f, g)
		x := append([]byte{}, a...)
		x[0] ^= byte(1 + rng.Intn(255))
		x[31] ^= 0x80
		pair("first-and-high", a, x) // order decided by byte 0, high bits differ
	}
	for _, v := range []byte{0, 1, 127, 128, 255} {
		for _, w := range []byte{0, 1, 127, 128, 255} {
			a := make([]byte, 32)
			b := make([]byte, 32)
			a[31], b[31] = v, w
			pair("corner", a, b)
			for i := range a {
				a[i], b[i] = v, w
			}
			pair("corner", a, b)
		}
	}
	h.EmitStats(emit, st)
}

func key32(s string) (k types.Ed25519Public) {
	b := h.UnHex(s)
	if len(b) != 32 {
		panic("verifh: key must be 32 bytes")
	}
	copy(k[:], b)
	return
}

func bstr(b bool) string {
	if b {
		return "true"
	}
	return "false"
}

func run(input string) string {
	f := strings.Fields(input)
	switch f[0] {
	case "sqrt":
		return strconv.Itoa(validator.ComputeWidth(atoi(f[1])))
	case "sqrange":
		lo, hi := atoi(f[1]), atoi(f[2])
		var b strings.Builder
		prev := validator.ComputeWidth(lo)
		b.WriteString(strconv.Itoa(prev))
		for n := lo + 1; n <= hi; n++ {
			w := validator.ComputeWidth(n)
			if w != prev {
				fmt.Fprintf(&b, ";%d:%d", n, w)
				prev = w
			}
		}
		return b.String()
	case "sqcheck":
		k0, k1 := atoi(f[1]), atoi(f[2])
		for k := k0; k < k1; k++ {
			below := k - 1
			if k == 1 {
				below = 1 // ComputeWidth(0) = 1 by definition
			}
			if validator.ComputeWidth(k*k-1) != below || validator.ComputeWidth(k*k) != k || validator.ComputeWidth(k*k+1) != k {
				return fmt.Sprintf("fail %d", k)
			}
		}
		return "ok"
	case "nbrs":
		g := &validator.GridMapper{Current: make(types.ValidatorsData, atoi(f[1]))}
		return intsCsv(g.NeighborIndicesInEpoch(atoi(f[2])))
	case "row":
		v, a := atoi(f[1]), atoi(f[2])
		g := &validator.GridMapper{Current: make(types.ValidatorsData, v)}
		out := make([]byte, 0, v+2)
		for b := -1; b <= v; b++ {
			if g.IsNeighborInEpoch(a, b) {
				out = append(out, '1')
			} else {
				out = append(out, '0')
			}
		}
		return string(out)
	case "all", "isn", "cross":
		g := &validator.GridMapper{Previous: setOf(f[1]), Current: setOf(f[2]), Next: setOf(f[3])}
		self := atoi(f[4])
		var selfKey types.Ed25519Public
		if self >= 0 && self < len(g.Current) {
			selfKey = g.Current[self].Ed25519
		}
		vm := &validator.ValidatorManager{Grid: g, SelfIndex: self, SelfKey: selfKey}
		switch f[0] {
		case "all":
			res := g.AllNeighborValidators(self)
			ids := make([]uint64, len(res))
			for i, v := range res {
				ids[i] = idOf(v.Ed25519)
			}
			res2 := vm.GetNeighbors()
			if len(res2) != len(res) {
				return "GetNeighbors-differs"
			}
			for i := range res {
				if res[i] != res2[i] {
					return "GetNeighbors-differs"
				}
			}
			return idsCsv(ids)
		case "isn":
			return bstr(vm.IsNeighbor(keyOf(h.U(f[5]))))
		default:
			return bstr(g.IsSameIndexCrossEpoch(self, keyOf(h.U(f[5]))))
		}
	case "find":
		g := &validator.GridMapper{Current: setOf(f[1])}
		i, ok := g.FindIndex(keyOf(h.U(f[2])))
		if !ok {
			return "none"
		}
		return strconv.Itoa(i)
	case "pi":
		a, b := key32(f[1]), key32(f[2])
		ab := validator.PreferredInitiator(a, b)
		ba := validator.PreferredInitiator(b, a)
		return h.Hex(ab[:]) + " " + h.Hex(ba[:])
	}
	panic("verifh: bad case " + input)
}

func main() {
	logger.SetEnabled(false)
	h.Main(gen, run)
}
