//go:build verif

package main

import (
	"bufio"
	"bytes"
	"fmt"
	"os"
	"runtime"
	"strings"
	"sync"

	h "github.com/New-JAMneration/JAM-Protocol/internal/verifh"
)

// Self-contained copies of the small helpers of internal/verifpvm (blob assembly, canonical page
// rendering, parallel "run" loop), so that this harness builds independently of that package.

func encNat(x uint64) []byte {
	if x < 128 {
		return []byte{byte(x)}
	}
	for l := 1; l < 8; l++ {
		if x < uint64(1)<<(7*uint(l+1)) {
			b := []byte{byte(256 - (1 << (8 - uint(l))) + int(x>>(8*uint(l))))}
			for i := 0; i < l; i++ {
				b = append(b, byte(x>>(8*uint(i))))
			}
			return b
		}
	}
	b := []byte{0xFF}
	for i := 0; i < 8; i++ {
		b = append(b, byte(x>>(8*uint(i))))
	}
	return b
}

// mkBlob builds E(|j|) E_1(z) E(|c|) E_z(j) c k  (Gray Paper A.2).
func mkBlob(jt []uint32, z int, code []byte, mask []bool) []byte {
	var b []byte
	b = append(b, encNat(uint64(len(jt)))...)
	b = append(b, byte(z))
	b = append(b, encNat(uint64(len(code)))...)
	for _, e := range jt {
		for i := 0; i < z; i++ {
			b = append(b, byte(e>>(8*uint(i))))
		}
	}
	b = append(b, code...)
	kb := make([]byte, (len(code)+7)/8)
	for i, m := range mask {
		if m {
			kb[i/8] |= 1 << uint(i%8)
		}
	}
	b = append(b, kb...)
	return b
}

// Asm accumulates instructions: code bytes plus the bitmask bit at each instruction start.
type Asm struct {
	Code   []byte
	Mask   []bool
	Starts []int
}

func (a *Asm) Ins(bs ...byte) int {
	pc := len(a.Code)
	a.Starts = append(a.Starts, pc)
	for i, b := range bs {
		a.Code = append(a.Code, b)
		a.Mask = append(a.Mask, i == 0)
	}
	return pc
}

var zeroChunk [64]byte

func nextNonZero(v []byte, i int) int {
	for i+64 <= len(v) && bytes.Equal(v[i:i+64], zeroChunk[:]) {
		i += 64
	}
	for i < len(v) && v[i] == 0 {
		i++
	}
	return i
}

// fmtPage renders one page canonically: idx:acc followed by the maximal runs of non-zero bytes.
func fmtPage(idx uint32, acc int, val []byte) string {
	var sb strings.Builder
	fmt.Fprintf(&sb, "%d:%d", idx, acc)
	i := 0
	for {
		i = nextNonZero(val, i)
		if i >= len(val) {
			break
		}
		j := i
		for j < len(val) && val[j] != 0 {
			j++
		}
		fmt.Fprintf(&sb, ":%d=%s", i, h.Hex(val[i:j]))
		i = j
	}
	return sb.String()
}

// harnessMain speaks the protocol of verifh.Main but evaluates the cases of "run" on several
// goroutines, in input order. Every history builds its own memory, machines and context.
func harnessMain(gen func(*h.Rng, string, func(string)), run func(string) string) {
	if len(os.Args) >= 2 && os.Args[1] == "run" {
		runParallel(run)
		return
	}
	h.Main(gen, run)
}

func runParallel(run func(string) string) {
	w := bufio.NewWriterSize(os.Stdout, 1<<20)
	defer w.Flush()
	sc := bufio.NewScanner(os.Stdin)
	sc.Buffer(make([]byte, 1<<20), 1<<28)
	workers := runtime.GOMAXPROCS(0)
	if workers > 8 {
		workers = 8
	}
	const batch = 2048
	lines := make([]string, 0, batch)
	flush := func() {
		outs := make([]string, len(lines))
		var wg sync.WaitGroup
		chunk := (len(lines) + workers - 1) / workers
		for k := 0; k < workers; k++ {
			lo, hi := k*chunk, (k+1)*chunk
			if hi > len(lines) {
				hi = len(lines)
			}
			if lo >= hi {
				break
			}
			wg.Add(1)
			go func(lo, hi int) {
				defer wg.Done()
				for i := lo; i < hi; i++ {
					line := lines[i]
					outs[i] = h.Guard(func() string { return run(line) })
				}
			}(lo, hi)
		}
		wg.Wait()
		for i, l := range lines {
			w.WriteString(l)
			w.WriteString(" | ")
			w.WriteString(outs[i])
			w.WriteByte('\n')
		}
		lines = lines[:0]
	}
	for sc.Scan() {
		line := sc.Text()
		if line == "" || line[0] == '#' {
			continue
		}
		if i := strings.Index(line, " | "); i >= 0 {
			line = line[:i]
		}
		lines = append(lines, line)
		if len(lines) == batch {
			flush()
		}
	}
	flush()
}
