//go:build verif

// C33 harness: inner PVM machines during refinement. One case = one HISTORY of machine / peek / poke /
// pages / invoke / expunge calls against ONE refine context (registers, gas, guest memory, the
// IntegratedPVMMap of RefineArgs), each call made through the REAL entry of PVM.RefineOmegas with an
// OmegaInput built the way Host.HostCall builds it and a HostCallArgs built the way RefineInvoke / Psi_M
// build it (Addition.Program = the refining service's own, outer, program).
//
// case input:   h <outer-pages> <gas> <op> <op> ...
//
//	<outer-pages> = ';'-joined "idx:acc[:off=hex]*"   (acc 0 inaccessible, 1 read-only, 2 read-write)
//	<op> = m,po,pz,i | k,n,o,s,z (peek) | p,n,s,o,z (poke) | g,n,p,c,r (pages) | v,n,o (invoke) | x,n (expunge)
//	       | w,addr,hex  (the guest stores bytes into its own memory between calls; harness-side, not a host call)
//
// output: one record per host call, joined by " ; ":
//
//	c <w7> <w8> <gas> <regs> <outer> <machines>      the call continued
//	panic <gas> <outer> <machines>                     the call panicked the outer machine (history ends)
//	oog <outer> <machines>                             out of gas (history ends)
//	GOPANIC <kind>                                     a Go runtime panic escaped the host call (history ends)
//
// <regs> = "=" when every register other than w7, w8 is as before the call, else all 13;
// <outer> / <machines> = "=" when exactly as after the previous record, else the full canonical dump:
// pages "idx:acc:off=hex..." (pages that are inaccessible and all zero are not listed: that is what an
// absent page is), machines "id@pc@hp@pages" joined by '|'.
package main

import (
	"fmt"
	"runtime/debug"
	"sort"
	"strconv"
	"strings"

	"github.com/New-JAMneration/JAM-Protocol/PVM"
	"github.com/New-JAMneration/JAM-Protocol/internal/types"
	h "github.com/New-JAMneration/JAM-Protocol/internal/verifh"
)

func init() { debug.SetGCPercent(400) }

// the refining service's own program: instruction starts at 0, 9, 18, 27, ... so that its skip
// distances differ from those of every generated inner program
var outerProgram = func() *PVM.Program {
	a := &Asm{}
	for i := 0; i < 12; i++ {
		a.Ins(51, 7, 1, 2, 3, 4, 0, 0, 0) // load_imm with a long (zero-extended) immediate
	}
	a.Ins(0)
	p, ex := PVM.DeBlobProgramCode(mkBlob(nil, 0, a.Code, a.Mask))
	if ex != PVM.ExitContinue {
		panic("verifh: outer program does not deblob")
	}
	return &p
}()

func dumpPages(m *PVM.Memory) string {
	if m == nil || len(m.Pages) == 0 {
		return "-"
	}
	idx := make([]uint32, 0, len(m.Pages))
	for k := range m.Pages {
		idx = append(idx, k)
	}
	sort.Slice(idx, func(i, j int) bool { return idx[i] < idx[j] })
	parts := make([]string, 0, len(idx))
	for _, k := range idx {
		p := m.Pages[k]
		if p == nil {
			parts = append(parts, fmt.Sprintf("%d:nil", k))
			continue
		}
		s := fmtPage(k, int(p.Access), p.Value)
		if len(p.Value) != PVM.ZP {
			s += fmt.Sprintf(":len=%d", len(p.Value))
		}
		if p.Access == PVM.MemoryInaccessible && !strings.Contains(s[strings.Index(s, ":")+1:], ":") {
			continue // inaccessible and all zero = absent
		}
		parts = append(parts, s)
	}
	if len(parts) == 0 {
		return "-"
	}
	return strings.Join(parts, ";")
}

func dumpMachines(mm PVM.IntegratedPVMMap) string {
	if len(mm) == 0 {
		return "-"
	}
	ids := make([]uint64, 0, len(mm))
	for k := range mm {
		ids = append(ids, k)
	}
	sort.Slice(ids, func(i, j int) bool { return ids[i] < ids[j] })
	parts := make([]string, 0, len(ids))
	for _, k := range ids {
		mc := mm[k]
		hp, _ := PVM.VerifC33Heap(&mc.Memory)
		parts = append(parts, fmt.Sprintf("%d@%d@%d@%s", k, uint32(mc.PC), hp, dumpPages(&mc.Memory)))
	}
	return strings.Join(parts, "|")
}

func fmtRegs(r *PVM.Registers) string {
	s := make([]string, 13)
	for i := range r {
		s[i] = strconv.FormatUint(r[i], 10)
	}
	return strings.Join(s, ",")
}

func parseOuter(spec string) *PVM.Memory {
	mem := PVM.VerifC33NewMemory()
	if spec == "-" {
		return mem
	}
	for _, ps := range strings.Split(spec, ";") {
		f := strings.Split(ps, ":")
		val := make([]byte, PVM.ZP)
		for _, r := range f[2:] {
			kv := strings.SplitN(r, "=", 2)
			copy(val[h.I(kv[0]):], h.UnHex(kv[1]))
		}
		mem.Pages[uint32(h.U(f[0]))] = &PVM.Page{Value: val, Access: PVM.MemoryAccess(h.I(f[1]))}
	}
	return mem
}

var opOf = map[string]PVM.OperationType{"m": PVM.MachineOp, "k": PVM.PeekOp, "p": PVM.PokeOp, "g": PVM.PagesOp,
	"v": PVM.InvokeOp, "x": PVM.ExpungeOp}

func run(input string) string {
	t := strings.Fields(input)
	if len(t) < 3 || t[0] != "h" {
		return "BADCASE"
	}
	mem := parseOuter(t[1])
	gasv, err := strconv.ParseInt(t[2], 10, 64)
	if err != nil {
		return "BADCASE"
	}
	gas := PVM.Gas(gasv)
	var regs PVM.Registers
	for i := range regs {
		regs[i] = uint64(i+1) * 0x0101010101010101
	}
	// the context of a refine invocation, as RefineInvoke + Psi_M set it up
	sid := types.ServiceID(7)
	core := types.CoreIndex(0)
	accounts := types.ServiceAccountState{}
	add := PVM.HostCallArgs{
		GeneralArgs: PVM.GeneralArgs{ServiceID: &sid, ServiceAccountState: &accounts, CoreID: &core},
		RefineArgs: PVM.RefineArgs{
			IntegratedPVMMap: PVM.IntegratedPVMMap{},
			ExportSegment:    []types.ExportSegment{},
		},
		Program: outerProgram,
	}
	var recs []string
	prevO, prevM := dumpPages(mem), "-"
	delta := func(cur string, prev *string) string {
		if cur == *prev {
			return "="
		}
		*prev = cur
		return cur
	}
	for _, op := range t[3:] {
		f := strings.Split(op, ",")
		if f[0] == "w" {
			addr := h.U(f[1])
			for i, b := range h.UnHex(f[2]) {
				a := addr + uint64(i)
				if pg, ok := mem.Pages[uint32(a/PVM.ZP)]; ok {
					pg.Value[a%PVM.ZP] = b
				}
			}
			prevO = dumpPages(mem)
			continue
		}
		opc, ok := opOf[f[0]]
		if !ok {
			return "BADCASE"
		}
		for i, a := range f[1:] {
			regs[7+i] = h.U(a)
		}
		before := regs
		stop := false
		rec := h.Guard(func() string {
			out := PVM.VerifC33Omega(opc)(PVM.OmegaInput{
				Operation: opc,
				VM:        &PVM.VMState{Registers: &regs, Memory: mem, Gas: &gas},
				Addition:  add,
				HostCalls: PVM.RefineOmegas,
			})
			switch out.ExitReason.GetReasonType() {
			case PVM.CONTINUE:
				add = out.Addition
				rs := "="
				for i := range regs {
					if i != 7 && i != 8 && regs[i] != before[i] {
						rs = fmtRegs(&regs)
					}
				}
				return fmt.Sprintf("c %d %d %d %s %s %s", regs[7], regs[8], int64(gas), rs,
					delta(dumpPages(mem), &prevO), delta(dumpMachines(add.IntegratedPVMMap), &prevM))
			case PVM.PANIC:
				stop = true
				return fmt.Sprintf("panic %d %s %s", int64(gas), delta(dumpPages(mem), &prevO),
					delta(dumpMachines(out.Addition.IntegratedPVMMap), &prevM))
			case PVM.OUT_OF_GAS:
				stop = true
				return fmt.Sprintf("oog %s %s", delta(dumpPages(mem), &prevO),
					delta(dumpMachines(out.Addition.IntegratedPVMMap), &prevM))
			default:
				stop = true
				return fmt.Sprintf("exit:%d", uint64(out.ExitReason))
			}
		})
		recs = append(recs, rec)
		if stop || strings.HasPrefix(rec, "GOPANIC") {
			break
		}
	}
	if len(recs) == 0 {
		return "-"
	}
	return strings.Join(recs, " ; ")
}

func main() { harnessMain(gen, run) }
