//go:build verif

package main

import (
	"fmt"
	"strconv"
	"strings"

	h "github.com/New-JAMneration/JAM-Protocol/internal/verifh"
)

// ---- inner programs ---------------------------------------------------------------------------

func le(v uint64, n int) []byte {
	b := make([]byte, n)
	for i := range b {
		b[i] = byte(v >> (8 * uint(i)))
	}
	return b
}

type prog struct {
	kind   string
	blob   []byte
	starts []int // instruction starts (entry points)
}

type asm struct{ Asm }

func (a *asm) loadImm(reg byte, v uint64, n int) { a.Ins(append([]byte{51, reg}, le(v, n)...)...) }
func (a *asm) loadImm64(reg byte, v uint64)      { a.Ins(append([]byte{20, reg}, le(v, 8)...)...) }
func (a *asm) alu3(op, d, x, y byte)             { a.Ins(op, x|y<<4, d) }
func (a *asm) alu2i(op, d, s byte, v uint64, n int) {
	a.Ins(append([]byte{op, d | s<<4}, le(v, n)...)...)
}
func (a *asm) ecalli(v uint64, n int) { a.Ins(append([]byte{10}, le(v, n)...)...) }
func (a *asm) trap()                  { a.Ins(0) }
func (a *asm) fallthru()              { a.Ins(1) }

// halt: jump_ind through r with r + imm = 2^32 - 2^16
func (a *asm) halt(reg byte) {
	a.Ins(51, reg, 0x00, 0x00, 0xff, 0xff) // load_imm reg = 0xffffffffffff0000
	a.Ins(50, reg)                         // jump_ind reg + 0
}
func (a *asm) finish(kind string, jt []uint32, z int) prog {
	return prog{kind: kind, blob: mkBlob(jt, z, a.Code, a.Mask), starts: a.Starts}
}

var ecalliVals = []uint64{0, 1, 7, 12, 100, 127, 128, 255, 256, 300, 0x7fff, 0x8000, 0xffff, 0x7fffffff, 0x80000000, 0xffffffff}

func (a *asm) randEcalli(r *h.Rng) {
	v := ecalliVals[r.Intn(len(ecalliVals))]
	n := 0
	for x := v; x > 0; x >>= 8 {
		n++
	}
	if n < 4 && r.Chance(1, 3) {
		n += r.Intn(4 - n + 1)
	}
	if r.Chance(1, 12) {
		n = r.Intn(5) // truncating encodings as well
	}
	a.ecalli(v, n)
}

// how a program ends: ecalli+trap, trap, halt, or running off the end (implicit trap)
func (a *asm) randEnd(r *h.Rng) {
	switch r.Intn(6) {
	case 0, 1:
		a.randEcalli(r)
		a.trap()
	case 2:
		a.trap()
	case 3, 4:
		a.halt(byte(r.Intn(7)))
	default:
		a.fallthru() // then past the end: trap
	}
}

var aluOps3 = []byte{190, 191, 192, 200, 201, 202, 210, 211, 212, 193, 195, 203, 205, 197, 198, 207, 208, 216, 217, 218, 219, 224, 225, 226, 227, 228, 229, 230, 220, 222}
var aluOps2i = []byte{131, 132, 133, 134, 135, 136, 137, 138, 139, 149, 150, 151, 152, 154, 147, 148, 158, 160}

func randVal(r *h.Rng) uint64 {
	switch r.Intn(5) {
	case 0:
		return uint64(r.Intn(16))
	case 1:
		return []uint64{0x7f, 0x80, 0xff, 0x7fff, 0x8000, 0xffffffff, 0x80000000, 0x7fffffffffffffff, 0x8000000000000000, ^uint64(0)}[r.Intn(10)]
	default:
		return r.U64() >> uint(r.Intn(64))
	}
}

func progArith(r *h.Rng) prog {
	a := &asm{}
	n := 2 + r.Intn(6)
	for i := 0; i < n; i++ {
		switch r.Intn(6) {
		case 0:
			a.loadImm(byte(r.Intn(13)), randVal(r), r.Intn(5))
		case 1:
			a.loadImm64(byte(r.Intn(13)), randVal(r))
		case 5: // two registers: move_reg, sbrk (the inner heap is empty: always 0), bit counts, extensions
			a.Ins(byte(100+r.Intn(12)), byte(r.Intn(13))|byte(r.Intn(13))<<4)
		case 2, 3:
			a.alu3(aluOps3[r.Intn(len(aluOps3))], byte(r.Intn(13)), byte(r.Intn(13)), byte(r.Intn(13)))
		default:
			a.alu2i(aluOps2i[r.Intn(len(aluOps2i))], byte(r.Intn(13)), byte(r.Intn(13)), randVal(r), r.Intn(5))
		}
		if r.Chance(1, 6) {
			a.randEcalli(r)
		}
	}
	a.randEnd(r)
	return a.finish("arith", nil, 0)
}

// inner addresses: pages 16..19 of the inner RAM are the ones the histories open with `pages`
func innerAddr(r *h.Rng) uint64 {
	base := uint64(16+r.Intn(4)) * 4096
	switch r.Intn(10) {
	case 0:
		return base
	case 1, 2:
		return base + 4096 - uint64(1+r.Intn(8)) // straddles into the next page
	case 3, 4:
		return base + uint64(r.Intn(4096))
	case 5:
		return uint64(r.Intn(16)) * 4096 // below 2^16: panic
	default:
		return base + uint64(r.Intn(256))
	}
}

func progMem(r *h.Rng) prog {
	a := &asm{}
	n := 1 + r.Intn(5)
	for i := 0; i < n; i++ {
		ad := innerAddr(r)
		switch r.Intn(6) {
		case 0: // store_imm_u8/16/32/64 [ad], v
			a.Ins(append(append([]byte{byte(30 + r.Intn(4)), 4}, le(ad, 4)...), le(randVal(r), r.Intn(5))...)...)
		case 1: // load_* reg, [ad]
			a.Ins(append([]byte{byte(52 + r.Intn(7)), byte(r.Intn(13))}, le(ad, 4)...)...)
		case 2: // store_u* [ad], reg
			a.Ins(append([]byte{byte(59 + r.Intn(4)), byte(r.Intn(13))}, le(ad, 4)...)...)
		case 3: // store_ind_u* [rB + off], rA ; rB = r8 (the window usually puts an address there)
			a.Ins(append([]byte{byte(120 + r.Intn(4)), byte(r.Intn(13)) | 8<<4}, le(uint64(r.Intn(64)), 1)...)...)
		case 4: // load_ind_* rA, [rB + off]
			a.Ins(append([]byte{byte(124 + r.Intn(7)), byte(r.Intn(13)) | 8<<4}, le(uint64(r.Intn(64)), 1)...)...)
		default: // store_imm_ind [rA + x], y
			a.Ins(append(append([]byte{byte(70 + r.Intn(4)), 8 | 1<<4}, le(uint64(r.Intn(64)), 1)...), le(randVal(r), r.Intn(5))...)...)
		}
		if r.Chance(1, 5) {
			a.randEcalli(r)
		}
	}
	a.randEnd(r)
	return a.finish("mem", nil, 0)
}

func progLoop(r *h.Rng) prog {
	a := &asm{}
	switch r.Intn(3) {
	case 0: // jump to itself: runs out of gas
		if r.Bool() {
			a.fallthru()
		}
		a.Ins(40, 0)
	case 1: // counting loop: r1 += 1 until r1 == N
		a.alu2i(149, 1, 1, 1, 1)                    // add_imm_64 r1 = r1 + 1   (3 bytes)
		a.Ins(82, 1|1<<4, byte(1+r.Intn(40)), 0xfd) // branch_ne_imm r1, N, -3
		a.randEnd(r)
	default: // two-block loop with a store inside
		a.Ins(append([]byte{62, 1}, le(16*4096+8, 4)...)...) // store_u64 [0x10008], r1
		a.alu2i(149, 1, 1, 1, 1)
		a.Ins(40, 0xf7) // jump -9 (back to 0)
	}
	return a.finish("loop", nil, 0)
}

func progJumpTable(r *h.Rng) prog {
	a := &asm{}
	// 0: load_imm r1, 2*(k+1) ; jump_ind r1 ; targets: blocks each "load_imm r2, k ; ecalli k ; trap"
	k := r.Intn(3)
	a.loadImm(1, uint64(2*(k+1)), 1)
	a.Ins(50, 1)
	var jt []uint32
	for i := 0; i < 3; i++ {
		jt = append(jt, uint32(len(a.Code)))
		a.loadImm(2, uint64(40+i), 1)
		a.ecalli(uint64(i+1), 1)
		a.trap()
	}
	if r.Chance(1, 4) {
		jt[r.Intn(3)] = uint32(r.Intn(len(a.Code) + 3)) // maybe not a block start: panic
	}
	z := 1 + r.Intn(2)
	return a.finish("jumptable", jt, z)
}

func progEmpty(r *h.Rng) prog { return prog{kind: "empty", blob: []byte{0, 0, 0}, starts: []int{0}} }

// programs that must be refused by `machine`
func badBlob(r *h.Rng) prog {
	switch r.Intn(7) {
	case 0:
		return prog{kind: "bad-random", blob: r.Bytes(r.Intn(40))}
	case 1: // truncated valid blob
		p := progArith(r)
		cut := 1 + r.Intn(len(p.blob))
		return prog{kind: "bad-truncated", blob: p.blob[:len(p.blob)-cut]}
	case 2: // trailing byte
		p := progArith(r)
		return prog{kind: "bad-trailing", blob: append(p.blob, byte(r.U64()))}
	case 3: // declared code length beyond the blob
		return prog{kind: "bad-codelen", blob: append([]byte{0, 0, byte(1 + r.Intn(120))}, r.Bytes(r.Intn(4))...)}
	case 4: // huge declared lengths
		b := []byte{0xff}
		b = append(b, r.Bytes(8)...)
		b = append(b, byte(r.Intn(9)), 0xff)
		b = append(b, r.Bytes(8)...)
		return prog{kind: "bad-huge", blob: append(b, r.Bytes(r.Intn(6))...)}
	case 5: // jump table declared, not present
		return prog{kind: "bad-jt", blob: []byte{byte(1 + r.Intn(100)), byte(1 + r.Intn(8)), 1, 0, 1}}
	default:
		return prog{kind: "bad-empty", blob: nil}
	}
}

func randProg(r *h.Rng) prog {
	switch r.Intn(12) {
	case 0, 1, 2, 3:
		return progArith(r)
	case 4, 5, 6:
		return progMem(r)
	case 7, 8:
		return progLoop(r)
	case 9:
		return progJumpTable(r)
	case 10:
		if r.Chance(1, 4) {
			return progEmpty(r)
		}
		return progArith(r)
	default:
		return badBlob(r)
	}
}

// ---- histories --------------------------------------------------------------------------------

const pg = 4096

type gstate struct {
	r      *h.Rng
	ops    []string
	acc    map[int]int // outer page -> access (absent = not in map)
	live   []uint64    // machine ids believed alive
	st     h.Stats
	nextAt uint64 // bump pointer for blobs in page 16
	loops  bool   // some program of this history can run for ever: no astronomically large gas then
	hot    []uint64 // inner addresses that (probably) hold data: poke destinations
}

// an inner address to read back: mostly at or next to one that was written
func (g *gstate) hotAddr() uint64 {
	r := g.r
	if len(g.hot) > 0 && r.Chance(2, 3) {
		return g.hot[r.Intn(len(g.hot))] + uint64(r.Intn(5)) - 2
	}
	return innerAddr(r)
}

func (g *gstate) emit(f string, a ...interface{}) { g.ops = append(g.ops, fmt.Sprintf(f, a...)) }

func (g *gstate) pagesWith(acc int) []int {
	var out []int
	for p := 16; p < 26; p++ {
		if a, ok := g.acc[p]; ok && a == acc {
			out = append(out, p)
		}
	}
	return out
}

// an outer address for a buffer of n bytes that should (mostly) be writable / readable
func (g *gstate) outerAddr(n uint64, wantWrite bool) uint64 {
	r := g.r
	rw := g.pagesWith(2)
	ro := g.pagesWith(1)
	switch r.Intn(16) {
	case 0: // read-only page
		if len(ro) > 0 {
			return uint64(ro[r.Intn(len(ro))])*pg + uint64(r.Intn(pg-int(n%pg)))
		}
	case 1: // straddling out of a writable page into whatever follows
		if len(rw) > 0 && n > 1 {
			return uint64(rw[r.Intn(len(rw))]+1)*pg - uint64(1+r.Intn(int(min(n, pg))-1))
		}
	case 2: // absent / inaccessible / low / top of the address space
		return []uint64{0, 4096, 15 * pg, 19 * pg, 19*pg + 4000, 26 * pg, 1<<32 - n, 1<<32 - n + 1, 1<<32 - 1, 1 << 32, 1<<63 + 17*pg,
			^uint64(0), ^uint64(0) - n + 1}[r.Intn(13)]
	}
	if len(rw) == 0 {
		return 17 * pg
	}
	if n > 2048 && n <= 3*pg { // a long buffer: where the following pages are writable too, if anywhere
		for _, p := range rw {
			if g.acc[p+1] == 2 && (n <= pg || g.acc[p+2] == 2) {
				return uint64(p)*pg + uint64(r.Intn(64))
			}
		}
	}
	p := rw[r.Intn(len(rw))]
	if !wantWrite && len(ro) > 0 && r.Chance(1, 3) {
		p = ro[r.Intn(len(ro))]
	}
	room := pg - int(n%pg)
	if room <= 0 {
		room = 1
	}
	return uint64(p)*pg + uint64(r.Intn(room))
}

func (g *gstate) machineID() uint64 {
	r := g.r
	if len(g.live) > 0 && !r.Chance(1, 10) {
		return g.live[r.Intn(len(g.live))]
	}
	return []uint64{0, 1, 2, 3, 7, 1 << 32, ^uint64(0), uint64(len(g.live))}[r.Intn(8)]
}

func (g *gstate) minFree() uint64 {
	for n := uint64(0); ; n++ {
		found := false
		for _, l := range g.live {
			if l == n {
				found = true
			}
		}
		if !found {
			return n
		}
	}
}

func (g *gstate) opMachine() {
	r := g.r
	p := randProg(r)
	g.st.Inc("prog-" + p.kind)
	if p.kind == "loop" || p.kind == "jumptable" {
		g.loops = true
	}
	var at uint64
	if r.Chance(1, 10) {
		at = g.outerAddr(uint64(len(p.blob)), false)
	} else {
		at = 16*pg + g.nextAt
		g.nextAt += uint64(len(p.blob)) + uint64(r.Intn(8))
		if g.nextAt > 3*pg {
			g.nextAt = 0
		}
	}
	if len(p.blob) > 0 {
		g.emit("w,%d,%s", at, h.Hex(p.blob))
	}
	pz := uint64(len(p.blob))
	if r.Chance(1, 25) {
		pz = []uint64{0, pz + 1, pz - 1, 1 << 20, 1 << 32, 1<<32 + 1, ^uint64(0)}[r.Intn(7)]
	}
	entry := uint64(0)
	if len(p.starts) > 0 && r.Chance(1, 4) {
		entry = uint64(p.starts[r.Intn(len(p.starts))])
	}
	switch r.Intn(40) {
	case 0:
		entry = uint64(r.Intn(len(p.blob) + 4)) // maybe not an instruction start... only if it is one (see below)
		ok := false
		for _, s := range p.starts {
			if uint64(s) == entry {
				ok = true
			}
		}
		if !ok {
			entry = uint64(len(p.blob) + r.Intn(50)) // past the end: trap
		}
	case 1:
		entry = []uint64{1 << 32, 1<<32 + 5, 1 << 63, ^uint64(0)}[r.Intn(4)]
		g.st.Inc("machine-pc-ge-2^32")
	}
	g.emit("m,%d,%d,%d", at, pz, entry)
	g.st.Inc("op-machine")
	if len(p.blob) > 0 && r.Chance(1, 4) {
		// the guest reuses the buffer: the machine must keep its own copy of the program
		g.emit("w,%d,%s", at, h.Hex(r.Bytes(len(p.blob))))
		g.st.Inc("blob-overwritten-after-machine")
	}
	if !strings.HasPrefix(p.kind, "bad") && pz == uint64(len(p.blob)) && at >= 16*pg && at+pz <= 18*pg {
		n := g.minFree()
		g.live = append(g.live, n)
		if r.Chance(9, 10) { // the usual next step: give the machine some RAM (inner pages 16..19)
			first := uint64(16 + r.Intn(2))
			g.emit("g,%d,%d,%d,%d", n, first, 20-first-uint64(r.Intn(2)), 2-r.Intn(8)/7)
			g.st.Inc("op-pages-open")
		}
	}
}

func (g *gstate) opPages() {
	r := g.r
	n := g.machineID()
	p := uint64(16 + r.Intn(4))
	c := uint64(1 + r.Intn(3))
	mode := uint64([]int{1, 2, 2, 2, 2, 3, 4, 0, 2, 1}[r.Intn(10)])
	if r.Chance(1, 6) {
		switch r.Intn(9) {
		case 0:
			p = uint64(r.Intn(16)) // below 16
		case 1:
			p = 1<<20 - 1 - uint64(r.Intn(3)) // top of the page space: p + c reaches 2^20 or not
		case 2:
			c = 1<<20 - p - uint64(r.Intn(2)) // p + c = 2^20 - 1 would be a million pages: keep it refused
			if p+c < 1<<20 {
				c++
			}
		case 3:
			c = ^uint64(0) - p + 1 + uint64(r.Intn(20)) // p + c wraps past 2^64
		case 4:
			mode = uint64(5 + r.Intn(3))
		case 5:
			mode = []uint64{1 << 32, 1<<32 + 2, 1 << 63, ^uint64(0)}[r.Intn(4)]
		case 6:
			c = 0
		case 7:
			p = []uint64{1 << 20, 1<<32 + 16, 1<<63 + 16, ^uint64(0)}[r.Intn(4)]
		default:
			p, c = 1<<20-2, 1 // the last pages: legal
		}
	}
	if r.Chance(1, 150) { // a few hundred pages at once (the legal maximum, a million pages, is not generated)
		p, c = uint64(16+r.Intn(40)), uint64(150+r.Intn(200))
		g.st.Inc("op-pages-hundreds")
	}
	g.emit("g,%d,%d,%d,%d", n, p, c, mode)
	g.st.Inc(fmt.Sprintf("op-pages-r%d", min(mode, 7)))
}

// length of a peek / poke copy: mostly a few bytes, sometimes more than a page, rarely absurd
func copyLen(r *h.Rng) uint64 {
	switch r.Intn(20) {
	case 0:
		return 0
	case 1: // more than a page (costly for the reference model: rare)
		if r.Chance(1, 4) {
			return uint64([]int{4095, 4096, 4097, 5000, 8192}[r.Intn(5)])
		}
		return uint64(100 + r.Intn(200))
	case 2:
		return []uint64{1 << 20, 1 << 32, 1<<32 + 1, ^uint64(0)}[r.Intn(4)]
	case 3, 4, 5, 6:
		return uint64(17 + r.Intn(84))
	default:
		return uint64(1 + r.Intn(16))
	}
}

func (g *gstate) opPoke() {
	r := g.r
	z := copyLen(r)
	src := g.outerAddr(z, false)
	dst := innerAddr(r)
	if r.Chance(1, 20) {
		dst = []uint64{0, 1<<32 - z, 1<<32 - z + 1, 1 << 32, ^uint64(0)}[r.Intn(5)]
	}
	if r.Chance(3, 4) && z > 0 && z <= 100 { // fresh bytes to carry
		g.emit("w,%d,%s", src, h.Hex(r.Bytes(int(z))))
	}
	g.hot = append(g.hot, dst)
	n := g.machineID()
	g.emit("p,%d,%d,%d,%d", n, src, dst, z)
	g.st.Inc("op-poke")
	if r.Chance(2, 5) { // read it back (shifted by one now and then) into another buffer
		back := dst + uint64(r.Intn(4)/3)
		g.emit("k,%d,%d,%d,%d", n, g.outerAddr(z, true), back, z)
		g.st.Inc("op-peek")
	}
}

func (g *gstate) opPeek() {
	r := g.r
	z := copyLen(r)
	dst := g.outerAddr(z, true)
	src := g.hotAddr()
	if r.Chance(1, 20) {
		src = []uint64{0, 1<<32 - z, 1<<32 - z + 1, 1 << 32, ^uint64(0)}[r.Intn(5)]
	}
	g.emit("k,%d,%d,%d,%d", g.machineID(), dst, src, z)
	g.st.Inc("op-peek")
}

func (g *gstate) opInvoke() {
	r := g.r
	at := g.outerAddr(112, true)
	// the guest prepares gas and registers
	var gas uint64
	switch r.Intn(12) {
	case 0:
		gas = 0
	case 1:
		gas = uint64(1 + r.Intn(3))
	case 2:
		gas = []uint64{1 << 63, 1<<63 + 5, ^uint64(0), 1<<63 - 1, 1 << 40}[r.Intn(5)]
		if g.loops && gas < 1<<63 {
			gas = 1<<63 + gas
		}
		g.st.Inc("invoke-gas-huge")
	default:
		gas = uint64(5 + r.Intn(200))
	}
	w := le(gas, 8)
	for i := 0; i < 13; i++ {
		v := randVal(r)
		if i == 8 || (i < 3 && r.Chance(1, 3)) {
			v = innerAddr(r) // base address for the indirect accesses
		}
		if i == 0 && r.Chance(1, 3) {
			v = 0xffff0000 // jump_ind r0 halts
		}
		w = append(w, le(v, 8)...)
	}
	if g.loops || !r.Chance(1, 8) { // (stale bytes as gas are fine only when every program terminates)
		g.emit("w,%d,%s", at, h.Hex(w))
	}
	g.emit("v,%d,%d", g.machineID(), at)
	g.st.Inc("op-invoke")
}

func (g *gstate) opExpunge() {
	n := g.machineID()
	g.emit("x,%d", n)
	for i, l := range g.live {
		if l == n {
			g.live = append(g.live[:i], g.live[i+1:]...)
			break
		}
	}
	g.st.Inc("op-expunge")
}

func outerLayout(r *h.Rng) (string, map[int]int) {
	acc := map[int]int{}
	var parts []string
	add := func(p, a int, data string) {
		acc[p] = a
		parts = append(parts, fmt.Sprintf("%d:%d%s", p, a, data))
	}
	if r.Chance(3, 4) {
		add(16, 2, "")
		add(17, 2, ":8=0102030405060708:4090=a1a2a3a4a5a6")
		add(18, 1, ":0=1122334455667788:100="+h.Hex(r.Bytes(40))+":4088=8899aabbccddeeff")
		// 19 absent
		add(20, 2, ":4095=7f")
		add(21, 0, ":0=5a5a5a5a") // present, inaccessible, not empty
	} else {
		add(16, 2, "")
		for p := 17; p < 24; p++ {
			switch r.Intn(5) {
			case 0:
			case 1:
				add(p, 0, ":16="+h.Hex(r.Bytes(4)))
			case 2:
				add(p, 1, ":0="+h.Hex(r.Bytes(24))+":4080="+h.Hex(r.Bytes(16)))
			default:
				add(p, 2, ":4092="+h.Hex(r.Bytes(4)))
			}
		}
	}
	return strings.Join(parts, ";"), acc
}

func genHistory(r *h.Rng, st h.Stats) string {
	layout, acc := outerLayout(r)
	g := &gstate{r: r, acc: acc, st: st}
	n := 4 + r.Intn(14)
	// usual shape: create, open pages, load data, run, look, run again, clean up; with random detours
	g.opMachine()
	for i := 1; i < n; i++ {
		var k int
		if len(g.live) == 0 && r.Chance(2, 3) {
			k = 0
		} else {
			k = []int{0, 1, 1, 1, 2, 2, 3, 3, 4, 4, 4, 4, 4, 5}[r.Intn(14)]
		}
		switch k {
		case 0:
			g.opMachine()
		case 1:
			g.opPages()
		case 2:
			g.opPoke()
		case 3:
			g.opPeek()
		case 4:
			g.opInvoke()
		default:
			g.opExpunge()
		}
	}
	calls := 0
	for _, o := range g.ops {
		if o[0] != 'w' {
			calls++
		}
	}
	gas := int64(10*calls + r.Intn(50))
	if r.Chance(1, 12) {
		gas = int64(10*r.Intn(calls+1)) + int64(r.Intn(10)) - int64(r.Intn(2)*5) // runs out of gas somewhere
		st.Inc("hist-short-of-gas")
	}
	st.Inc("hist-len-" + strconv.Itoa(min(calls/4, 4)*4))
	return fmt.Sprintf("h %s %d %s", layout, gas, strings.Join(g.ops, " "))
}

func gen(r *h.Rng, tier string, emit func(string)) {
	st := h.Stats{}
	// verifh seeds are consecutive splitmix states (seed k+1 = seed k advanced by one draw): re-key on a
	// mixed output so that different seeds give unrelated histories
	r = h.NewRng(r.U64())
	n := 4000
	if tier == "thorough" {
		n = 100000
	}
	for i := 0; i < n; i++ {
		emit(genHistory(r.Fork(), st))
	}
	h.EmitStats(emit, st)
}
