//go:build verif

package main

import (
	h "github.com/New-JAMneration/JAM-Protocol/internal/verifh"
)

func gen(r *h.Rng, tier string, emit func(string)) {
}
