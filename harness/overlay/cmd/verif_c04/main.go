//go:build verif

// C04 harness: see internal/verifpvm (shared by C01, C04, C05).
package main

import (
	h "github.com/New-JAMneration/JAM-Protocol/internal/verifh"
	"github.com/New-JAMneration/JAM-Protocol/internal/verifpvm"
)

func main() { h.Main(verifpvm.GenC04, verifpvm.Run) }
