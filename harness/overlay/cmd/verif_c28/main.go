//go:build verif

// C28 harness: the REAL telemetry tcpClient (internal/telemetry) driven by concurrent emitter goroutines over
// in-memory connections with injected dial failures, write failures (also inside the node-information frame and
// inside a frame), a stalled peer, peer close, reconnects and Close.  One case = one seeded scenario.
//
// input :  sc <seed> P=<gomaxprocs> E=<emitters> B=<buffer> A=<attempts/emitter> close=<end|mid:k|stalled>
//             conns=<plan,plan,...> ctl=<k:action,...> [pad=<bytes>] [pb=<permille>] [storm=<bytes>] [rmin=<ns>] [mix=std|fu]
//          pad    = padding appended to every event payload (the copy EmitFollowup makes of it sits between its checks)
//          pb     = probability (per mille) that the builder of a lazy emit PANICS on the writer goroutine
//          storm  = every connection after the planned ones dies once nodeinfo + rand(0..bytes) bytes were accepted
//                   (reconnect storm); rmin = ReconnectMin = ReconnectMax in ns
//          nb     = probability (per mille) that the builder of a lazy emit RETURNS NIL (an encoder that "failed"): the
//                   unchanged client sends a header-only frame (follow-up: parent seq only); such a frame has no tag, so
//                   the call is identified by a discriminator used only once (plain 100+12e+k, follow-up 200+7e+k)
//          mix=fu = emitters alternate Emit / follow-up of the id just returned, without pausing on InvalidID
//          plan   = ok | df (dial fails) | w<bytes> (write error once <bytes> bytes were accepted) | st (peer stops
//                   reading after the node information until "gate") | st+w<bytes>
//          action = stall (peer stops reading) | gate (peer reads again) | peer (peer closes the connection);
//                   fired by emitter 0 after its k-th attempt
// output:  <verdict> <counts> ; W <wire tokens> ; R <emit tokens>
//          verdict = ok | hang <what> (emitters or Close did not finish in scenarioBound; Close on a readable peer needed
//                    the force path and more) | blocked (an Emit call took longer than emitBound: emitters run while the peer is
//                    stalled, and a stalled peer only resumes through emitter 0's progress or the watchdog)
//                    | GOPANIC emitter (a panic inside an Emit* call)
//          wire tokens: c = next connection, n = node-information frame (byte-equal to NodeInfo.Encode), e<tag> event,
//                    f<tag>.<parentseq> follow-up, d<count> dropped-events record, x = malformed / unknown frame or
//                    trailing bytes on a connection that saw no write error
//          emit tokens: <tag>:<epoch>:<seq>[:<parent epoch>:<parent seq>] sorted by id, then <tag>:-[:pe:ps] (InvalidID)
// The schedule is whatever the Go runtime does (not reproducible); the extracted, proved oracle `accepts`
// (coq/Model/Telemetry.v) is evaluated on the observed run by ocaml/C28/driver.ml; expected verdict is always "ok".
package main

import (
	"context"
	"errors"
	"fmt"
	"io"
	"log"
	"net"
	"runtime"
	"sort"
	"strconv"
	"strings"
	"sync"
	"sync/atomic"
	"time"

	"github.com/New-JAMneration/JAM-Protocol/internal/telemetry"
	h "github.com/New-JAMneration/JAM-Protocol/internal/verifh"
)

const (
	discPlain  = 10
	discFollow = 11

	// nil-payload lazy emits: one discriminator per call, so the header-only frame identifies its emit call
	discNilPlain  = 100 // + 12*emitter + k, k < 12
	discNilFollow = 200 // + 7*emitter + k,  k < 7
	nilEmitters   = 8

	emitBound     = 4 * time.Second  // an Emit slower than this counts as a blocked emitter
	stallWatchdog = 6 * time.Second  // a stalled peer resumes by itself after this (so nothing can hang)
	scenarioBound = 12 * time.Second // emitters / Close must be done by then
)

var errInjected = errors.New("verif: injected write failure")
var errPeer = errors.New("verif: peer closed")

// ---------------------------------------------------------------------------------------------
// fake connection

type fakeAddr struct{}

func (fakeAddr) Network() string { return "verif" }
func (fakeAddr) String() string  { return "verif" }

type fakeConn struct {
	mu      sync.Mutex
	buf     []byte // bytes the peer received
	nodeLen int    // length of the framed node information
	failAt  int    // -1 = never
	wErr    bool   // some Write returned an error

	closeCh   chan struct{}
	closeOnce sync.Once
	peerCh    chan struct{}
	peerOnce  sync.Once
	gate      chan struct{} // guarded by mu; nil = peer is reading; non-nil = peer stalled until closed
	stalled   atomic.Int32  // Writes that had to wait at the gate
}

func (c *fakeConn) openGate() {
	c.mu.Lock()
	if c.gate != nil {
		close(c.gate)
		c.gate = nil
	}
	c.mu.Unlock()
}

// stall makes the peer stop reading (again): the next Write after the node information blocks.
func (c *fakeConn) stall() {
	c.mu.Lock()
	if c.gate == nil {
		c.gate = make(chan struct{})
	}
	c.mu.Unlock()
}
func (c *fakeConn) peerClose() { c.peerOnce.Do(func() { close(c.peerCh) }) }

func (c *fakeConn) Write(b []byte) (int, error) {
	c.mu.Lock()
	g := c.gate
	if len(c.buf) < c.nodeLen {
		g = nil
	}
	c.mu.Unlock()
	if g != nil {
		c.stalled.Add(1)
		select {
		case <-g:
		case <-c.closeCh:
		case <-c.peerCh:
		}
	}
	c.mu.Lock()
	defer c.mu.Unlock()
	select {
	case <-c.closeCh:
		c.wErr = true
		return 0, io.ErrClosedPipe
	case <-c.peerCh:
		c.wErr = true
		return 0, errPeer
	default:
	}
	if c.failAt >= 0 && len(c.buf)+len(b) > c.failAt {
		n := c.failAt - len(c.buf)
		if n < 0 {
			n = 0
		}
		c.buf = append(c.buf, b[:n]...)
		c.failAt = len(c.buf)
		c.wErr = true
		return n, errInjected
	}
	c.buf = append(c.buf, b...)
	return len(b), nil
}

func (c *fakeConn) Read(b []byte) (int, error) {
	select {
	case <-c.closeCh:
		return 0, io.ErrClosedPipe
	case <-c.peerCh:
		return 0, io.EOF
	}
}
func (c *fakeConn) Close() error                       { c.closeOnce.Do(func() { close(c.closeCh) }); return nil }
func (c *fakeConn) LocalAddr() net.Addr                { return fakeAddr{} }
func (c *fakeConn) RemoteAddr() net.Addr               { return fakeAddr{} }
func (c *fakeConn) SetDeadline(t time.Time) error      { return nil }
func (c *fakeConn) SetReadDeadline(t time.Time) error  { return nil }
func (c *fakeConn) SetWriteDeadline(t time.Time) error { return nil }

// ---------------------------------------------------------------------------------------------
// scenario

type connPlan struct {
	dialFail bool
	failAt   int
	stall    bool
}

type ctlAction struct {
	at   int
	kind string // gate | peer | close
}

type scenario struct {
	seed     uint64
	procs    int
	emitters int
	buffer   int
	attempts int
	closeAt  int // -1 = after the emitters finished
	closeStalled bool
	plans    []connPlan
	ctl      []ctlAction
	pad      int
	panicPM  int
	nilPM    int
	storm    int // -1 = off
	rminNs   int
	mixFu    bool
}

func parsePlan(s string) connPlan {
	p := connPlan{failAt: -1}
	for _, part := range strings.Split(s, "+") {
		switch {
		case part == "ok":
		case part == "df":
			p.dialFail = true
		case part == "st":
			p.stall = true
		case strings.HasPrefix(part, "w"):
			p.failAt = h.I(part[1:])
		default:
			panic("verifh: bad plan " + s)
		}
	}
	return p
}

func parseScenario(input string) scenario {
	t := strings.Fields(input)
	if len(t) < 2 || t[0] != "sc" {
		panic("verifh: bad case")
	}
	sc := scenario{seed: h.U(t[1]), procs: 4, emitters: 2, buffer: 4, attempts: 50, closeAt: -1, storm: -1}
	for _, kv := range t[2:] {
		i := strings.IndexByte(kv, '=')
		if i < 0 {
			panic("verifh: bad token " + kv)
		}
		k, v := kv[:i], kv[i+1:]
		switch k {
		case "P":
			sc.procs = h.I(v)
		case "E":
			sc.emitters = h.I(v)
		case "B":
			sc.buffer = h.I(v)
		case "A":
			sc.attempts = h.I(v)
		case "close":
			switch {
			case v == "end":
			case v == "stalled":
				sc.closeStalled = true
			case strings.HasPrefix(v, "mid:"):
				sc.closeAt = h.I(v[4:])
			default:
				panic("verifh: bad close " + v)
			}
		case "pad":
			sc.pad = h.I(v)
		case "pb":
			sc.panicPM = h.I(v)
		case "nb":
			sc.nilPM = h.I(v)
		case "storm":
			sc.storm = h.I(v)
		case "rmin":
			sc.rminNs = h.I(v)
		case "mix":
			sc.mixFu = v == "fu"
		case "conns":
			if v != "-" {
				for _, p := range strings.Split(v, ",") {
					sc.plans = append(sc.plans, parsePlan(p))
				}
			}
		case "ctl":
			if v != "-" {
				for _, a := range strings.Split(v, ",") {
					j := strings.IndexByte(a, ':')
					sc.ctl = append(sc.ctl, ctlAction{at: h.I(a[:j]), kind: a[j+1:]})
				}
			}
		default:
			panic("verifh: bad key " + k)
		}
	}
	if sc.emitters < 1 || sc.emitters > 64 || sc.attempts > 100000 || sc.buffer < 1 || sc.pad > 1<<16 {
		panic("verifh: bad size")
	}
	if sc.closeAt >= 0 {
		sc.ctl = append(sc.ctl, ctlAction{at: sc.closeAt, kind: "close"})
	}
	sort.SliceStable(sc.ctl, func(i, j int) bool { return sc.ctl[i].at < sc.ctl[j].at })
	return sc
}

type emitRec struct {
	tag       uint32
	id        uint64
	hasParent bool
	parent    uint64
}

const padByte = 0xAB

// payload = tag (u32 LE) followed by pad bytes of padding
func mkPayload(tag uint32, pad int) []byte {
	b := make([]byte, 4+pad)
	b[0], b[1], b[2], b[3] = byte(tag), byte(tag>>8), byte(tag>>16), byte(tag>>24)
	for i := 4; i < len(b); i++ {
		b[i] = padByte
	}
	return b
}

func nodeInfo() telemetry.NodeInfo {
	ni := telemetry.NodeInfo{JAMParameters: []byte{1, 2, 3, 4, 5}, PeerPort: 30333, NodeFlags: 1,
		ImplName: "verif", ImplVersion: "0.28", GrayPaperVer: "0.7.2", FreeformInfo: "c28"}
	for i := range ni.GenesisHash {
		ni.GenesisHash[i] = byte(i)
		ni.PeerID[i] = byte(255 - i)
	}
	return ni
}

func runScenario(sc scenario) string {
	runtime.GOMAXPROCS(sc.procs)
	ni := nodeInfo()
	niBytes, err := ni.Encode()
	if err != nil {
		panic("verifh: node info")
	}
	nodeLen := 4 + len(niBytes)

	var connMu sync.Mutex
	var conns []*fakeConn
	dials := 0
	dialRng := h.NewRng(sc.seed ^ 0x5bd1e995) // guarded by connMu
	dial := func(ctx context.Context, addr string) (net.Conn, error) {
		connMu.Lock()
		defer connMu.Unlock()
		p := connPlan{failAt: -1}
		if dials < len(sc.plans) {
			p = sc.plans[dials]
		} else if sc.storm >= 0 {
			p.failAt = nodeLen + dialRng.Intn(sc.storm+1)
		}
		dials++
		if p.dialFail {
			return nil, errors.New("verif: dial refused")
		}
		c := &fakeConn{nodeLen: nodeLen, failAt: p.failAt, closeCh: make(chan struct{}), peerCh: make(chan struct{})}
		if p.stall {
			c.gate = make(chan struct{})
		}
		conns = append(conns, c)
		return c, nil
	}
	current := func() *fakeConn {
		connMu.Lock()
		defer connMu.Unlock()
		if len(conns) == 0 {
			return nil
		}
		return conns[len(conns)-1]
	}
	openAll := func() {
		connMu.Lock()
		defer connMu.Unlock()
		for _, c := range conns {
			c.openGate()
		}
	}

	closeTimeout := 3 * time.Second
	if sc.closeStalled {
		closeTimeout = 30 * time.Millisecond
	}
	rng := h.NewRng(sc.seed)
	cfg := telemetry.Config{
		Endpoint:         "verif:0",
		NodeInfo:         ni,
		BufferSize:       sc.buffer,
		ReconnectMin:     time.Duration(100+rng.Intn(400)) * time.Microsecond,
		ReconnectMax:     time.Millisecond,
		CloseTimeout:     closeTimeout,
		TailDropInterval: time.Duration(200+rng.Intn(1800)) * time.Microsecond,
	}
	if sc.rminNs > 0 {
		cfg.ReconnectMin = time.Duration(sc.rminNs)
		cfg.ReconnectMax = time.Duration(sc.rminNs)
	}
	cli, start, err := telemetry.VerifNewTCPClient(cfg, dial)
	if err != nil {
		panic("verifh: config " + err.Error())
	}
	start()

	// wait (bounded) for the first connection unless the scenario starts with failures: emitters cope either way
	deadline := time.Now().Add(200 * time.Millisecond)
	for !cli.Enabled() && time.Now().Before(deadline) {
		time.Sleep(50 * time.Microsecond)
	}

	var closeIssued atomic.Bool
	closeDone := make(chan struct{})
	doClose := func() {
		if closeIssued.CompareAndSwap(false, true) {
			go func() { cli.Close(); close(closeDone) }()
		}
	}
	watchdog := time.AfterFunc(stallWatchdog, openAll)
	defer watchdog.Stop()

	recs := make([][]emitRec, sc.emitters)
	nilPlain := make([][]uint32, sc.emitters) // per emitter: tags of its nil-payload EmitLazy calls, in order
	nilFollow := make([][]uint32, sc.emitters)
	maxLat := make([]time.Duration, sc.emitters)
	seeds := make([]*h.Rng, sc.emitters)
	for e := range seeds {
		seeds[e] = rng.Fork()
	}
	var wg sync.WaitGroup
	var emitterPanics, builderPanics atomic.Int32
	for e := 0; e < sc.emitters; e++ {
		wg.Add(1)
		go func(e int) {
			defer wg.Done()
			defer func() { // a panic inside Emit* (e.g. dropState.record's invariant check) must not kill the harness
				if x := recover(); x != nil {
					emitterPanics.Add(1)
				}
			}()
			r := seeds[e]
			var last, old uint64 = telemetry.InvalidID, telemetry.InvalidID
			ctl := 0
			afterClose, afterPanic := 0, 0
			fresh := false
			for k := 0; k < sc.attempts; k++ {
				tag := uint32(e*sc.attempts + k)
				rec := emitRec{tag: tag}
				op := r.Intn(100)
				if sc.mixFu { // Emit, then a follow-up of the id just returned, and so on
					if fresh {
						op = 70 + r.Intn(30)
					} else {
						op = r.Intn(70)
					}
				}
				pay := mkPayload(tag, sc.pad)
				builder := func() []byte { return pay }
				if sc.panicPM > 0 && r.Intn(1000) < sc.panicPM {
					builder = func() []byte { // an encoder bug: index out of range on the writer goroutine
						builderPanics.Add(1)
						var short []byte
						return []byte{short[len(pay)]}
					}
				}
				dPlain, dFollow := uint8(discPlain), uint8(discFollow)
				if sc.nilPM > 0 && e < nilEmitters && r.Intn(1000) < sc.nilPM {
					if op >= 55 && op < 70 && len(nilPlain[e]) < 12 {
						dPlain = uint8(discNilPlain + 12*e + len(nilPlain[e]))
						nilPlain[e] = append(nilPlain[e], tag)
						builder = func() []byte { return nil }
					} else if op >= 90 && len(nilFollow[e]) < 7 {
						dFollow = uint8(discNilFollow + 7*e + len(nilFollow[e]))
						nilFollow[e] = append(nilFollow[e], tag)
						builder = func() []byte { return nil }
					}
				}
				t0 := time.Now()
				switch {
				case op < 55:
					rec.id = cli.Emit(discPlain, pay)
				case op < 70:
					rec.id = cli.EmitLazy(dPlain, builder)
				default:
					parent := last
					if !sc.mixFu {
						switch q := r.Intn(10); {
						case q < 2:
							parent = old
						case q < 3:
							parent = telemetry.InvalidID
						}
					}
					if parent != telemetry.InvalidID {
						rec.hasParent, rec.parent = true, parent
					}
					if op < 90 {
						rec.id = cli.EmitFollowup(discFollow, parent, pay)
					} else {
						rec.id = cli.EmitFollowupLazy(dFollow, parent, builder)
					}
				}
				if d := time.Since(t0); d > maxLat[e] {
					maxLat[e] = d
				}
				recs[e] = append(recs[e], rec)
				fresh = rec.id != telemetry.InvalidID && !rec.hasParent
				if rec.id != telemetry.InvalidID {
					last = rec.id
					if old == telemetry.InvalidID {
						old = rec.id
					}
				} else if sc.mixFu {
					runtime.Gosched()
				} else {
					time.Sleep(30 * time.Microsecond)
				}
				if builderPanics.Load() > 0 { // unchanged client: degraded from now on; a few more attempts, then stop
					afterPanic++
					if afterPanic > 40 {
						break
					}
				}
				if e == 0 {
					for ctl < len(sc.ctl) && sc.ctl[ctl].at <= k {
						switch sc.ctl[ctl].kind {
						case "gate":
							if c := current(); c != nil {
								c.openGate()
							}
						case "stall":
							if c := current(); c != nil {
								c.stall()
							}
						case "peer":
							if c := current(); c != nil {
								c.peerClose()
							}
						case "close":
							doClose()
						}
						ctl++
					}
				} else if r.Intn(16) == 0 {
					runtime.Gosched()
				}
				if closeIssued.Load() {
					afterClose++
					if afterClose > 8 {
						break
					}
				}
			}
		}(e)
	}
	emittersDone := make(chan struct{})
	go func() { wg.Wait(); close(emittersDone) }()
	verdict := "ok"
	select {
	case <-emittersDone:
	case <-time.After(scenarioBound):
		// emitters are stuck inside Emit*: they are leaked, their records are not read
		openAll()
		blockedRuns++
		return "hang emitters-did-not-finish"
	}
	stalledWrites := 0
	connMu.Lock()
	for _, c := range conns {
		stalledWrites += int(c.stalled.Load())
	}
	connMu.Unlock()
	if !sc.closeStalled {
		openAll()
	}
	tClose := time.Now()
	doClose()
	select {
	case <-closeDone:
	case <-time.After(scenarioBound):
		verdict = "hang close-did-not-return"
	}
	if !sc.closeStalled && sc.closeAt < 0 && time.Since(tClose) > closeTimeout+500*time.Millisecond && verdict == "ok" {
		// Close on a readable peer had to force-close and the client's goroutines did not exit in time
		verdict = "hang close-forced"
	}
	openAll()
	for _, d := range maxLat {
		if d > emitBound && verdict == "ok" {
			verdict = "blocked"
		}
	}
	if emitterPanics.Load() > 0 {
		verdict = "GOPANIC emitter"
	}
	if verdict == "blocked" || strings.HasPrefix(verdict, "hang") {
		blockedRuns++
	}

	// ---- observed run -> canonical trace
	var w strings.Builder
	nEv, nDr, nFu, nConn, nEst, nBad := 0, 0, 0, 0, 0, 0
	connMu.Lock()
	all := append([]*fakeConn(nil), conns...)
	connMu.Unlock()
	for _, c := range all {
		c.mu.Lock()
		buf := append([]byte(nil), c.buf...)
		wErr := c.wErr
		c.mu.Unlock()
		nConn++
		w.WriteString(" c")
		d := telemetry.NewDecoder(buf)
		first := true
		for !d.Done() {
			n, err := d.ReadU32()
			var body []byte
			if err == nil {
				body, err = d.ReadBytesN(int(n))
			}
			if err != nil { // incomplete trailing frame: legitimate only if a write failed on this connection
				if !wErr {
					w.WriteString(" x")
					nBad++
				}
				break
			}
			if first {
				first = false
				if string(body) == string(niBytes) {
					w.WriteString(" n")
					nEst++
					continue
				}
			}
			tok := decodeEvent(body, sc.pad, nilPlain, nilFollow)
			switch tok[0] {
			case 'e':
				nEv++
			case 'f':
				nFu++
			case 'd':
				nDr++
			default:
				nBad++
			}
			w.WriteString(" " + tok)
		}
	}
	var flat []emitRec
	for _, rs := range recs {
		flat = append(flat, rs...)
	}
	sort.SliceStable(flat, func(i, j int) bool { return flat[i].id < flat[j].id }) // InvalidID = max sorts last
	var r strings.Builder
	nInv := 0
	for _, x := range flat {
		r.WriteString(" " + strconv.FormatUint(uint64(x.tag), 10) + ":")
		if x.id == telemetry.InvalidID {
			r.WriteString("-")
			nInv++
		} else {
			ep, sq := telemetry.VerifSplitID(x.id)
			r.WriteString(fmt.Sprintf("%d:%d", ep, sq))
		}
		if x.hasParent {
			ep, sq := telemetry.VerifSplitID(x.parent)
			r.WriteString(fmt.Sprintf(":%d:%d", ep, sq))
		}
	}
	return fmt.Sprintf("%s conns=%d est=%d ev=%d fu=%d dr=%d bad=%d emits=%d invalid=%d stalledwrites=%d builderpanics=%d ; W%s ; R%s",
		verdict, nConn, nEst, nEv, nFu, nDr, nBad, len(flat), nInv, stalledWrites, builderPanics.Load(), w.String(), r.String())
}

// decodeEvent parses one event frame body with the package's own decoder.
func decodeEvent(body []byte, pad int, nilPlain, nilFollow [][]uint32) string {
	padOK := func(d *telemetry.Decoder) bool {
		p, err := d.ReadBytesN(pad)
		if err != nil || !d.Done() {
			return false
		}
		for _, b := range p {
			if b != padByte {
				return false
			}
		}
		return true
	}
	d := telemetry.NewDecoder(body)
	if _, err := d.ReadU64(); err != nil { // timestamp
		return "x"
	}
	disc, err := d.ReadU8()
	if err != nil {
		return "x"
	}
	if disc >= discNilPlain && int(disc) < discNilPlain+12*nilEmitters { // header-only frame of a nil-payload EmitLazy
		e, k := int(disc-discNilPlain)/12, int(disc-discNilPlain)%12
		if !d.Done() || e >= len(nilPlain) || k >= len(nilPlain[e]) {
			return "x"
		}
		return "e" + strconv.FormatUint(uint64(nilPlain[e][k]), 10)
	}
	if disc >= discNilFollow && int(disc) < discNilFollow+7*nilEmitters { // parent seq only
		e, k := int(disc-discNilFollow)/7, int(disc-discNilFollow)%7
		ps, err := d.ReadU64()
		if err != nil || !d.Done() || e >= len(nilFollow) || k >= len(nilFollow[e]) {
			return "x"
		}
		return "f" + strconv.FormatUint(uint64(nilFollow[e][k]), 10) + "." + strconv.FormatUint(ps, 10)
	}
	switch disc {
	case telemetry.VerifDiscDropped:
		if _, err := d.ReadU64(); err != nil { // last timestamp
			return "x"
		}
		n, err := d.ReadU64()
		if err != nil || !d.Done() {
			return "x"
		}
		return "d" + strconv.FormatUint(n, 10)
	case discPlain:
		tag, err := d.ReadU32()
		if err != nil || !padOK(d) {
			return "x"
		}
		return "e" + strconv.FormatUint(uint64(tag), 10)
	case discFollow:
		ps, err := d.ReadU64()
		if err != nil {
			return "x"
		}
		tag, err := d.ReadU32()
		if err != nil || !padOK(d) {
			return "x"
		}
		return "f" + strconv.FormatUint(uint64(tag), 10) + "." + strconv.FormatUint(ps, 10)
	}
	return "x"
}

// blockedRuns counts scenarios that ended blocked / hung; after two of them the remaining scenarios are not
// run (each would cost the watchdog time), they are reported as blocked too.
var blockedRuns int

func run(input string) string {
	sc := parseScenario(input)
	if blockedRuns >= 2 {
		return "blocked (not run: two earlier scenarios already blocked or hung)"
	}
	return runScenario(sc)
}

// ---------------------------------------------------------------------------------------------
// generator

func gen(rng *h.Rng, tier string, emit func(string)) {
	st := h.Stats{}
	n := 900
	if tier == "thorough" {
		n = 30000
	}
	niBytes, _ := nodeInfo().Encode()
	nodeLen := 4 + len(niBytes)
	pick := func(xs []int) int { return xs[rng.Intn(len(xs))] }
	for i := 0; i < n; i++ {
		if i%30 == 7 {
			// reconnect storm: every connection dies after a few frames, immediate reconnects, emitters alternate
			// Emit / follow-up of the id just returned without pausing: a follow-up call is regularly in flight
			// while a whole disconnect -> epoch bump -> reconnect happens
			pad := pick([]int{0, 64, 512, 2048, 2048})
			emit(fmt.Sprintf("sc %d P=%d E=%d B=%d A=%d close=end conns=- ctl=- pad=%d storm=%d rmin=1 mix=fu", rng.U64()>>1,
				pick([]int{2, 4, 8, 8, 16}), pick([]int{3, 4, 6, 8, 8}), pick([]int{2, 4, 8, 8}), 800+rng.Intn(900), pad, (1+rng.Intn(4))*(25+pad)))
			st.Inc("reconnect-storm")
			continue
		}
		E := pick([]int{1, 2, 2, 3, 4, 4, 6, 8})
		B := pick([]int{1, 1, 2, 3, 4, 8, 16, 64})
		A := 30 + rng.Intn(170)
		P := pick([]int{1, 2, 4, 8, 16})
		nc := 1 + rng.Intn(4)
		var plans, ctl []string
		stalls := 0
		for c := 0; c < nc; c++ {
			switch k := rng.Intn(100); {
			case k < 25:
				plans = append(plans, "ok")
				st.Inc("conn-ok")
			case k < 33:
				plans = append(plans, "df")
				st.Inc("conn-dialfail")
			case k < 43: // failure inside the node-information frame (incl. 0 bytes and all but one byte)
				plans = append(plans, fmt.Sprintf("w%d", pick([]int{0, 1, 3, 4, 5, nodeLen / 2, nodeLen - 1})))
				st.Inc("conn-nodeinfo-fails")
			case k < 70: // write failure later, at an arbitrary byte offset (mid-frame or on a boundary)
				plans = append(plans, fmt.Sprintf("w%d", nodeLen+rng.Intn(13*(1+rng.Intn(40)))))
				st.Inc("conn-write-fails")
			case k < 88:
				plans = append(plans, "st")
				stalls++
				st.Inc("conn-stall")
			default:
				plans = append(plans, fmt.Sprintf("st+w%d", nodeLen+rng.Intn(13*(1+rng.Intn(20)))))
				stalls++
				st.Inc("conn-stall-then-fail")
			}
		}
		// control actions keyed to emitter 0's attempt counter
		na := rng.Intn(4) + stalls
		for a := 0; a < na; a++ {
			at := rng.Intn(A)
			if k := rng.Intn(6); k < 2 {
				ctl = append(ctl, fmt.Sprintf("%d:peer", at))
				st.Inc("ctl-peerclose")
			} else if k < 4 {
				ctl = append(ctl, fmt.Sprintf("%d:stall", at))
				st.Inc("ctl-stall")
				na++ // and one more action, most likely the matching gate
			} else {
				ctl = append(ctl, fmt.Sprintf("%d:gate", at))
				st.Inc("ctl-gate")
			}
		}
		cl := "end"
		switch k := rng.Intn(10); {
		case k < 3:
			cl = fmt.Sprintf("mid:%d", rng.Intn(A))
			st.Inc("close-mid")
		case k < 4:
			cl = "stalled"
			st.Inc("close-stalled")
		default:
			st.Inc("close-end")
		}
		cs := "-"
		if len(ctl) > 0 {
			cs = strings.Join(ctl, ",")
		}
		extra := ""
		if rng.Intn(4) == 0 { // some lazy builders panic on the writer goroutine
			extra += fmt.Sprintf(" pb=%d", pick([]int{10, 30, 100, 300}))
			st.Inc("panicking-builders")
		}
		if rng.Intn(4) == 0 { // some lazy builders return nil: header-only frames
			extra += fmt.Sprintf(" nb=%d", pick([]int{30, 100, 300, 600}))
			st.Inc("nil-payload-builders")
		}
		if rng.Intn(5) == 0 {
			extra += fmt.Sprintf(" pad=%d", pick([]int{1, 16, 300, 2048}))
			st.Inc("padded-payloads")
		}
		emit(fmt.Sprintf("sc %d P=%d E=%d B=%d A=%d close=%s conns=%s ctl=%s%s", rng.U64()>>1, P, E, B, A, cl, strings.Join(plans, ","), cs, extra))
		st.Inc(fmt.Sprintf("emitters-%d", E))
		st.Inc(fmt.Sprintf("buffer-%d", B))
		st.Inc(fmt.Sprintf("procs-%d", P))
	}
	h.EmitStats(emit, st)
}

func main() {
	log.SetOutput(io.Discard)
	h.Main(gen, run)
}
