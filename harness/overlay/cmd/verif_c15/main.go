//go:build verif

// C15 harness: the state-root merklization of the node against the Appendix D model.
//
//	root  <n> k1 v1 .. kn vn          -> <root> same|mutated      MerklizationSerializedState; the caller's slice is re-read afterwards
//	perm  <seed> <n> k1 v1 .. kn vn   -> <root> inv|var           root of the given order and of 6 seeded shuffles / reversal / key-sorted order
//	leaf  k v                         -> <64-byte node> <hash>    encodeLeafNode, EncodeLeafNodeHash
//	branch l r                        -> <64-byte node>           encodeBranchNode
//	part  <depth> <n> k1 v1 .. kn vn  -> <pivot> k1 v1 ..         partitionByBit (in place), resulting order
//	state <seed> <n> k1 v1 .. kn vn   -> <root> <root> enc-same|enc-diff
//	                                     MerklizationState(state(seed)), MerklizationSerializedState(given kvs),
//	                                     StateEncoder(state(seed)) == given kvs
package main

import (
	"bytes"
	"fmt"
	"sort"
	"strings"

	"github.com/New-JAMneration/JAM-Protocol/internal/types"
	m "github.com/New-JAMneration/JAM-Protocol/internal/utilities/merklization"
	h "github.com/New-JAMneration/JAM-Protocol/internal/verifh"
)

// ---------------------------------------------------------------------------------------------
// generation

func valLen(rng *h.Rng) int {
	switch rng.Intn(10) {
	case 0:
		return 0
	case 1:
		return 31
	case 2, 3:
		return 32
	case 4, 5:
		return 33
	case 6:
		return 64
	case 7:
		return 28 + rng.Intn(10)
	default:
		return rng.Intn(65)
	}
}

// flipAfterPrefix returns a key equal to base on the first p bits, different at bit p, random after.
func flipAfterPrefix(rng *h.Rng, base [31]byte, p int) [31]byte {
	var k [31]byte
	r := rng.Bytes(31)
	for i := 0; i < 248; i++ {
		bi, mask := i/8, byte(1<<(7-i%8))
		var bit byte
		switch {
		case i < p:
			bit = base[bi] & mask
		case i == p:
			bit = ^base[bi] & mask
		default:
			bit = r[bi] & mask
		}
		k[bi] |= bit
	}
	return k
}

func prefixLen(rng *h.Rng) int {
	switch rng.Intn(8) {
	case 0:
		return 247
	case 1:
		return 240 + rng.Intn(8)
	case 2, 3:
		return 200 + rng.Intn(48)
	case 4:
		return rng.Intn(16)
	default:
		return rng.Intn(248)
	}
}

// genEntries produces n entries with distinct keys clustered around a few base keys.
func genEntries(rng *h.Rng, n int) []types.StateKeyVal {
	nb := 1 + rng.Intn(3)
	bases := make([][31]byte, nb)
	for i := range bases {
		copy(bases[i][:], rng.Bytes(31))
		if i > 0 && rng.Bool() {
			bases[i] = flipAfterPrefix(rng, bases[0], prefixLen(rng))
		}
	}
	seen := map[[31]byte]bool{}
	out := make([]types.StateKeyVal, 0, n)
	for len(out) < n {
		var k [31]byte
		switch {
		case len(out) < nb && !seen[bases[len(out)]]:
			k = bases[len(out)]
		case len(out) > 0 && rng.Chance(1, 4):
			// branch off an already generated key: deep chains
			k = flipAfterPrefix(rng, out[rng.Intn(len(out))].Key, prefixLen(rng))
		default:
			k = flipAfterPrefix(rng, bases[rng.Intn(nb)], prefixLen(rng))
		}
		if seen[k] {
			continue
		}
		seen[k] = true
		out = append(out, types.StateKeyVal{Key: types.StateKey(k), Value: rng.Bytes(valLen(rng))})
	}
	return out
}

func fmtEntries(es []types.StateKeyVal) string {
	var sb strings.Builder
	for _, e := range es {
		sb.WriteByte(' ')
		sb.WriteString(h.Hex(e.Key[:]))
		sb.WriteByte(' ')
		sb.WriteString(h.Hex(e.Value))
	}
	return sb.String()
}

func shuffle(rng *h.Rng, es []types.StateKeyVal) {
	for i := len(es) - 1; i > 0; i-- {
		j := rng.Intn(i + 1)
		es[i], es[j] = es[j], es[i]
	}
}

func sizeOf(rng *h.Rng) int {
	switch rng.Intn(10) {
	case 0:
		return rng.Intn(4)
	case 1, 2, 3:
		return 2 + rng.Intn(8)
	case 4, 5, 6:
		return rng.Intn(40)
	case 7, 8:
		return rng.Intn(201)
	default:
		return 150 + rng.Intn(51)
	}
}

func sizeClass(n int) string {
	switch {
	case n == 0:
		return "n0"
	case n == 1:
		return "n1"
	case n <= 10:
		return "n2-10"
	case n <= 50:
		return "n11-50"
	default:
		return "n51-200"
	}
}

func gen(rng *h.Rng, tier string, emit func(string)) {
	st := h.Stats{}
	nsets, nleaf, npart, nstate := 350, 4000, 1500, 60
	if tier == "thorough" {
		nsets, nleaf, npart, nstate = 12000, 60000, 20000, 600
	}
	// node encodings: every value length 0..70 with two keys, then random
	for l := 0; l <= 70; l++ {
		for j := 0; j < 2; j++ {
			emit("leaf " + h.Hex(rng.Bytes(31)) + " " + h.Hex(rng.Bytes(l)))
			st.Inc("leaf")
		}
	}
	for i := 0; i < nleaf; i++ {
		k := rng.Bytes(31)
		if rng.Chance(1, 8) {
			k = bytes.Repeat([]byte{0xff}, 31)
		}
		emit("leaf " + h.Hex(k) + " " + h.Hex(rng.Bytes(valLen(rng))))
		st.Inc("leaf")
		l, r := rng.Bytes(32), rng.Bytes(32)
		if rng.Bool() {
			l[0] |= 0x80
		}
		emit("branch " + h.Hex(l) + " " + h.Hex(r))
		st.Inc("branch")
	}
	// the partition loop itself
	for i := 0; i < npart; i++ {
		n := rng.Intn(24)
		es := genEntries(rng, n)
		d := rng.Intn(248)
		if n > 0 && rng.Bool() {
			// a depth at which the set really splits
			a, b := es[rng.Intn(n)].Key, es[rng.Intn(n)].Key
			for j := 0; j < 248; j++ {
				if (a[j/8]^b[j/8])&(1<<(7-j%8)) != 0 {
					d = j
					break
				}
			}
		}
		emit(fmt.Sprintf("part %d %d%s", d, n, fmtEntries(es)))
		st.Inc("part")
	}
	// entry sets, each in several orders
	for i := 0; i < nsets; i++ {
		n := sizeOf(rng)
		es := genEntries(rng, n)
		st.Inc("set-" + sizeClass(n))
		emit(fmt.Sprintf("root %d%s", n, fmtEntries(es)))
		st.Inc("root")
		if n >= 2 {
			shuffle(rng, es)
			emit(fmt.Sprintf("root %d%s", n, fmtEntries(es)))
			st.Inc("root")
		}
		emit(fmt.Sprintf("perm %d %d%s", rng.U64()>>1, n, fmtEntries(es)))
		st.Inc("perm")
		// single-entry change around the 32/33 boundary on the same key set
		if n >= 1 && rng.Bool() {
			j := rng.Intn(n)
			es[j].Value = rng.Bytes(32 + rng.Intn(2))
			emit(fmt.Sprintf("root %d%s", n, fmtEntries(es)))
			st.Inc("root")
		}
	}
	// the two deepest possible tries: keys differing only in the last bit
	for i := 0; i < 20; i++ {
		var a [31]byte
		copy(a[:], rng.Bytes(31))
		b := a
		b[30] ^= 1
		es := []types.StateKeyVal{{Key: a, Value: rng.Bytes(valLen(rng))}, {Key: b, Value: rng.Bytes(valLen(rng))}}
		emit(fmt.Sprintf("root 2%s", fmtEntries(es)))
		st.Inc("root-depth247")
	}
	// full states
	for i := 0; i < nstate; i++ {
		seed := rng.U64() >> 1
		kvs, _ := m.StateEncoder(genState(h.NewRng(seed)))
		emit(fmt.Sprintf("state %d %d%s", seed, len(kvs), fmtEntries(kvs)))
		st.Inc("state")
	}
	h.EmitStats(emit, st)
}

// genState builds a State whose service accounts (storage, preimages, lookups) and a few scalar
// components are random; the remaining components keep their zero value.
func genState(rng *h.Rng) types.State {
	var s types.State
	s.Tau = types.TimeSlot(rng.U64())
	for i := range s.Eta {
		copy(s.Eta[i][:], rng.Bytes(32))
	}
	s.Delta = types.ServiceAccountState{}
	ns := rng.Intn(6)
	for i := 0; i < ns; i++ {
		id := types.ServiceID(rng.U64())
		if rng.Bool() {
			id = types.ServiceID(rng.Intn(4))
		}
		acc := types.ServiceAccount{
			PreimageLookup: types.PreimagesMapEntry{},
			LookupDict:     types.LookupMetaMapEntry{},
			StorageDict:    types.Storage{},
		}
		copy(acc.ServiceInfo.CodeHash[:], rng.Bytes(32))
		acc.ServiceInfo.Balance = types.U64(rng.U64())
		acc.ServiceInfo.Items = types.U32(rng.U64())
		for j, n := 0, rng.Intn(12); j < n; j++ {
			acc.StorageDict[string(rng.Bytes(rng.Intn(40)))] = rng.Bytes(valLen(rng))
		}
		for j, n := 0, rng.Intn(6); j < n; j++ {
			var hh types.OpaqueHash
			copy(hh[:], rng.Bytes(32))
			acc.PreimageLookup[hh] = rng.Bytes(valLen(rng))
		}
		for j, n := 0, rng.Intn(6); j < n; j++ {
			var k types.LookupMetaMapkey
			copy(k.Hash[:], rng.Bytes(32))
			k.Length = types.U32(rng.Intn(100000))
			ts := types.TimeSlotSet{}
			for t, nt := 0, rng.Intn(4); t < nt; t++ {
				ts = append(ts, types.TimeSlot(rng.U64()))
			}
			acc.LookupDict[k] = ts
		}
		s.Delta[id] = acc
	}
	return s
}

// ---------------------------------------------------------------------------------------------
// execution

func parseEntries(f []string, n int) types.StateKeyVals {
	if len(f) != 2*n {
		panic("verifh: entry count")
	}
	es := make(types.StateKeyVals, n)
	for i := 0; i < n; i++ {
		kb := h.UnHex(f[2*i])
		if len(kb) != 31 {
			panic("verifh: key length")
		}
		copy(es[i].Key[:], kb)
		es[i].Value = h.UnHex(f[2*i+1])
	}
	return es
}

func sameEntries(a, b types.StateKeyVals) bool {
	if len(a) != len(b) {
		return false
	}
	for i := range a {
		if a[i].Key != b[i].Key || !bytes.Equal(a[i].Value, b[i].Value) {
			return false
		}
	}
	return true
}

func cloneEntries(a types.StateKeyVals) types.StateKeyVals {
	c := make(types.StateKeyVals, len(a))
	for i := range a {
		c[i].Key = a[i].Key
		c[i].Value = append([]byte{}, a[i].Value...)
	}
	return c
}

func run(input string) string {
	f := strings.Fields(input)
	switch f[0] {
	case "root":
		es := parseEntries(f[2:], h.I(f[1]))
		keep := cloneEntries(es)
		r := m.MerklizationSerializedState(es)
		tag := "same"
		if !sameEntries(es, keep) {
			tag = "mutated"
		}
		return h.Hex(r[:]) + " " + tag
	case "perm":
		rng := h.NewRng(h.U(f[1]))
		es := parseEntries(f[3:], h.I(f[2]))
		r0 := m.MerklizationSerializedState(es)
		ok := true
		w := cloneEntries(es)
		for i := 0; i < 8; i++ {
			switch i {
			case 6:
				for a, b := 0, len(w)-1; a < b; a, b = a+1, b-1 {
					w[a], w[b] = w[b], w[a]
				}
			case 7:
				sort.Slice(w, func(a, b int) bool { return bytes.Compare(w[a].Key[:], w[b].Key[:]) < 0 })
			default:
				shuffle(rng, w)
			}
			if m.MerklizationSerializedState(w) != r0 {
				ok = false
			}
		}
		if ok {
			return h.Hex(r0[:]) + " inv"
		}
		return h.Hex(r0[:]) + " var"
	case "leaf":
		var k types.StateKey
		copy(k[:], h.UnHex(f[1]))
		v := h.UnHex(f[2])
		node := m.VerifEncodeLeafNode(k, v)
		hh := m.EncodeLeafNodeHash(k, v)
		return h.Hex(node[:]) + " " + h.Hex(hh[:])
	case "branch":
		var l, r types.OpaqueHash
		copy(l[:], h.UnHex(f[1]))
		copy(r[:], h.UnHex(f[2]))
		node := m.VerifEncodeBranchNode(l, r)
		return h.Hex(node[:])
	case "part":
		es := parseEntries(f[3:], h.I(f[2]))
		p := m.VerifPartitionByBit(es, h.I(f[1]))
		return fmt.Sprintf("%d%s", p, fmtEntries(es))
	case "state":
		state := genState(h.NewRng(h.U(f[1])))
		given := parseEntries(f[3:], h.I(f[2]))
		r1 := m.MerklizationState(state)
		r2 := m.MerklizationSerializedState(given)
		enc, err := m.StateEncoder(state)
		tag := "enc-same"
		if err != nil || !sameEntries(enc, given) {
			tag = "enc-diff"
		}
		return h.Hex(r1[:]) + " " + h.Hex(r2[:]) + " " + tag
	}
	panic("verifh: bad case " + f[0])
}

func main() { h.Main(gen, run) }
