//go:build verif

// self-test inputs for the OCaml Blake2b-256 / Keccak-256 used by the model drivers
package main

import (
	"fmt"
	"strings"

	"github.com/New-JAMneration/JAM-Protocol/internal/utilities/hash"
	h "github.com/New-JAMneration/JAM-Protocol/internal/verifh"
)

func gen(rng *h.Rng, tier string, emit func(string)) {
	lens := []int{0, 1, 31, 32, 33, 63, 64, 65, 127, 128, 129, 135, 136, 137, 255, 256, 257, 271, 272, 273, 1000}
	for _, l := range lens {
		b := rng.Bytes(l)
		emit("blake2b " + h.Hex(b))
		emit("keccak " + h.Hex(b))
	}
	for i := 0; i < 500; i++ {
		b := rng.Bytes(rng.Intn(600))
		emit("blake2b " + h.Hex(b))
		emit("keccak " + h.Hex(b))
	}
}

func run(input string) string {
	f := strings.Fields(input)
	b := h.UnHex(f[1])
	switch f[0] {
	case "blake2b":
		x := hash.Blake2bHash(b)
		return h.Hex(x[:])
	case "keccak":
		x := hash.KeccakHash(b)
		return h.Hex(x[:])
	}
	panic(fmt.Sprint("verifh: bad case ", input))
}

func main() { h.Main(gen, run) }
