//go:build verif

// C17 harness: state export / import round trip.
//
// input :  rt <cseed> <pseed> <nsvc> { <sid> <iseed> <ns> {<key> <val>}*ns <np> {<blob>|<hash>=<blob>}*np <nl> {<hash> <len> <slots>}*nl }*nsvc
//	      (a preimage is filed under Blake2b(blob), or under the spelled-out hash when that form is used: an entry no
//	       importer can recognise as a preimage, it must come back as a raw entry)
//	      [ x <n> {<key31> <val>}*n ]     foreign key-values mixed into the exported list before the import
//	                                      (random keys, near misses of component keys and of service-information keys)
//
//	cseed  seeds the 16 state components (tiny protocol parameters), iseed the ServiceInfo of a service,
//	pseed  the permutation of the exported key-values; the logical content of every service is spelled out
//	       so that the model can recompute every key (slots = concatenated 4-byte LE time slots).
//
// output:  n=<#kv> keys=<k[:v],...> parsed=<sid>/<#preimages>/<hash:len,...>;... raw=<k,...>
//
//	roundtrip ok|DIFF(missing=..|extra=..|changed=..)  roots eq|ne <r1> [<r2>]  node ok|<what differs>
//
//	keys   : StateEncoder(state), sorted; fixed and service-info keys alone, service entries as key:value
//	parsed : what StateKeyValsToState(permuted kvs) attributed: per service the number of preimages and the
//	         attached lookup entries; raw = the entries it kept unattributed
//	roundtrip : StateEncoder(parsed state) ++ raw compared with the original key->value set
//	roots  : MerklizationSerializedState of both
//	node   : the same through fuzz SetState -> GetState -> ChainState.RestoreBlockAndState (prior state + prior
//	         unmatched key-vals re-serialised), the three state roots (SetState result, stored root, recomputed)
package main

import (
	"bytes"
	"fmt"
	"os"
	"sort"
	"strings"

	"github.com/New-JAMneration/JAM-Protocol/internal/blockchain"
	"github.com/New-JAMneration/JAM-Protocol/internal/fuzz"
	"github.com/New-JAMneration/JAM-Protocol/internal/types"
	"github.com/New-JAMneration/JAM-Protocol/internal/utilities/hash"
	m "github.com/New-JAMneration/JAM-Protocol/internal/utilities/merklization"
	h "github.com/New-JAMneration/JAM-Protocol/internal/verifh"
	"github.com/New-JAMneration/JAM-Protocol/logger"
)

// ---------------------------------------------------------------------------------------------
// random values of the 16 components (tiny parameters)

func h32(r *h.Rng) (o types.OpaqueHash) { copy(o[:], r.Bytes(32)); return }

func small(r *h.Rng) uint64 {
	switch r.Intn(6) {
	case 0:
		return 0
	case 1:
		return uint64(r.Intn(128))
	case 2:
		return 127 + uint64(r.Intn(3))
	case 3:
		return r.U64() >> uint(r.Intn(64))
	case 4:
		return ^uint64(0) >> uint(r.Intn(8)*8)
	default:
		return r.U64()
	}
}

func validators(r *h.Rng) types.ValidatorsData {
	v := make(types.ValidatorsData, types.ValidatorsCount)
	for i := range v {
		copy(v[i].Bandersnatch[:], r.Bytes(32))
		copy(v[i].Ed25519[:], r.Bytes(32))
		copy(v[i].Bls[:], r.Bytes(144))
		copy(v[i].Metadata[:], r.Bytes(128))
	}
	return v
}

func workReport(r *h.Rng) types.WorkReport {
	var w types.WorkReport
	w.PackageSpec.Hash = types.WorkPackageHash(h32(r))
	w.PackageSpec.Length = types.U32(small(r))
	w.PackageSpec.ErasureRoot = types.ErasureRoot(h32(r))
	w.PackageSpec.ExportsRoot = types.ExportsRoot(h32(r))
	w.PackageSpec.ExportsCount = types.U16(small(r))
	w.Context.Anchor = types.HeaderHash(h32(r))
	w.Context.StateRoot = types.StateRoot(h32(r))
	w.Context.BeefyRoot = types.BeefyRoot(h32(r))
	w.Context.LookupAnchor = types.HeaderHash(h32(r))
	w.Context.LookupAnchorSlot = types.TimeSlot(small(r))
	w.Context.Prerequisites = []types.OpaqueHash{}
	for i, n := 0, r.Intn(3); i < n; i++ {
		w.Context.Prerequisites = append(w.Context.Prerequisites, h32(r))
	}
	w.CoreIndex = types.CoreIndex(r.Intn(types.CoresCount))
	w.AuthorizerHash = h32(r)
	w.AuthGasUsed = types.Gas(small(r))
	w.AuthOutput = r.Bytes(r.Intn(5))
	w.SegmentRootLookup = types.SegmentRootLookup{}
	for i, n := 0, r.Intn(3); i < n; i++ {
		w.SegmentRootLookup = append(w.SegmentRootLookup, types.SegmentRootLookupItem{
			WorkPackageHash: types.WorkPackageHash(h32(r)), SegmentTreeRoot: h32(r)})
	}
	kinds := []types.WorkExecResultType{types.WorkExecResultOk, types.WorkExecResultOutOfGas, types.WorkExecResultPanic,
		types.WorkExecResultBadExports, types.WorkExecResultReportOversize, types.WorkExecResultBadCode, types.WorkExecResultCodeOversize}
	for i, n := 0, 1+r.Intn(3); i < n; i++ {
		var d types.WorkResult
		d.ServiceID = types.ServiceID(small(r))
		d.CodeHash = h32(r)
		d.PayloadHash = h32(r)
		d.AccumulateGas = types.Gas(small(r))
		k := kinds[r.Intn(len(kinds))]
		if r.Bool() {
			k = types.WorkExecResultOk
		}
		if k == types.WorkExecResultOk {
			d.Result = types.WorkExecResult{Type: k, Data: r.Bytes(r.Intn(6))}
		} else {
			d.Result = types.WorkExecResult{Type: k}
		}
		d.RefineLoad = types.RefineLoad{GasUsed: types.Gas(small(r)), Imports: types.U16(small(r)), ExtrinsicCount: types.U16(small(r)),
			ExtrinsicSize: types.U32(small(r)), Exports: types.U16(small(r))}
		w.Results = append(w.Results, d)
	}
	return w
}

func tickets(r *h.Rng, n int) []types.TicketBody {
	t := make([]types.TicketBody, n)
	for i := range t {
		t[i].ID = types.TicketID(h32(r))
		t[i].Attempt = types.TicketAttempt(r.Intn(3))
	}
	return t
}

func genComponents(r *h.Rng) types.State {
	var s types.State
	C, V, E := types.CoresCount, types.ValidatorsCount, types.EpochLength
	// alpha, varphi
	s.Alpha = make(types.AuthPools, C)
	s.Varphi = make(types.AuthQueues, C)
	for c := 0; c < C; c++ {
		s.Alpha[c] = types.AuthPool{}
		for i, n := 0, r.Intn(types.AuthPoolMaxSize+1); i < n; i++ {
			s.Alpha[c] = append(s.Alpha[c], types.AuthorizerHash(h32(r)))
		}
		s.Varphi[c] = make(types.AuthQueue, types.AuthQueueSize)
		for i := range s.Varphi[c] {
			if r.Chance(1, 3) {
				s.Varphi[c][i] = types.AuthorizerHash(h32(r))
			}
		}
	}
	// beta
	s.Beta.History = types.BlocksHistory{}
	for i, n := 0, r.Intn(types.MaxBlocksHistory+1); i < n; i++ {
		bi := types.BlockInfo{HeaderHash: types.HeaderHash(h32(r)), BeefyRoot: h32(r), StateRoot: types.StateRoot(h32(r)),
			Reported: []types.ReportedWorkPackage{}}
		for j, k := 0, r.Intn(C+1); j < k; j++ {
			bi.Reported = append(bi.Reported, types.ReportedWorkPackage{Hash: types.WorkReportHash(h32(r)), ExportsRoot: types.ExportsRoot(h32(r))})
		}
		s.Beta.History = append(s.Beta.History, bi)
	}
	s.Beta.Mmr.Peaks = []types.MmrPeak{}
	for i, n := 0, r.Intn(6); i < n; i++ {
		if r.Chance(1, 3) {
			s.Beta.Mmr.Peaks = append(s.Beta.Mmr.Peaks, nil)
		} else {
			p := h32(r)
			s.Beta.Mmr.Peaks = append(s.Beta.Mmr.Peaks, &p)
		}
	}
	// gamma
	s.Gamma.GammaK = validators(r)
	copy(s.Gamma.GammaZ[:], r.Bytes(144))
	if r.Bool() {
		s.Gamma.GammaS.Tickets = tickets(r, E)
	} else {
		s.Gamma.GammaS.Keys = make([]types.BandersnatchPublic, E)
		for i := range s.Gamma.GammaS.Keys {
			copy(s.Gamma.GammaS.Keys[i][:], r.Bytes(32))
		}
	}
	s.Gamma.GammaA = types.TicketsAccumulator(tickets(r, r.Intn(E+1)))
	// psi
	s.Psi = types.DisputesRecords{Good: []types.WorkReportHash{}, Bad: []types.WorkReportHash{}, Wonky: []types.WorkReportHash{}, Offenders: []types.Ed25519Public{}}
	for i, n := 0, r.Intn(4); i < n; i++ {
		s.Psi.Good = append(s.Psi.Good, types.WorkReportHash(h32(r)))
	}
	for i, n := 0, r.Intn(4); i < n; i++ {
		s.Psi.Bad = append(s.Psi.Bad, types.WorkReportHash(h32(r)))
	}
	for i, n := 0, r.Intn(3); i < n; i++ {
		s.Psi.Wonky = append(s.Psi.Wonky, types.WorkReportHash(h32(r)))
	}
	for i, n := 0, r.Intn(4); i < n; i++ {
		s.Psi.Offenders = append(s.Psi.Offenders, types.Ed25519Public(h32(r)))
	}
	// eta, iota, kappa, lambda
	for i := range s.Eta {
		s.Eta[i] = types.Entropy(h32(r))
	}
	s.Iota, s.Kappa, s.Lambda = validators(r), validators(r), validators(r)
	// rho
	s.Rho = make(types.AvailabilityAssignments, C)
	for c := 0; c < C; c++ {
		if r.Bool() {
			s.Rho[c] = &types.AvailabilityAssignment{Report: workReport(r), AssignedSlot: types.TimeSlot(1 + small(r)%1000000)}
		}
	}
	// tau
	s.Tau = types.TimeSlot(small(r))
	// chi
	s.Chi = types.Privileges{Bless: types.ServiceID(small(r)), Designate: types.ServiceID(small(r)), CreateAcct: types.ServiceID(small(r)),
		Assign: make(types.ServiceIDList, C), AlwaysAccum: types.AlwaysAccumulateMap{}}
	for c := 0; c < C; c++ {
		s.Chi.Assign[c] = types.ServiceID(small(r))
	}
	for i, n := 0, r.Intn(4); i < n; i++ {
		s.Chi.AlwaysAccum[types.ServiceID(small(r))] = types.Gas(small(r))
	}
	// pi
	s.Pi.ValsCurr = make(types.ValidatorsStatistics, V)
	s.Pi.ValsLast = make(types.ValidatorsStatistics, V)
	for _, vs := range []types.ValidatorsStatistics{s.Pi.ValsCurr, s.Pi.ValsLast} {
		for i := range vs {
			vs[i] = types.ValidatorActivityRecord{Blocks: types.U32(small(r)), Tickets: types.U32(small(r)), PreImages: types.U32(small(r)),
				PreImagesSize: types.U32(small(r)), Guarantees: types.U32(small(r)), Assurances: types.U32(small(r))}
		}
	}
	s.Pi.Cores = make(types.CoresStatistics, C)
	for c := range s.Pi.Cores {
		s.Pi.Cores[c] = types.CoreActivityRecord{DALoad: types.U32(small(r)), Popularity: types.U16(small(r)), Imports: types.U16(small(r)),
			ExtrinsicCount: types.U16(small(r)), ExtrinsicSize: types.U32(small(r)), Exports: types.U16(small(r)), BundleSize: types.U32(small(r)),
			GasUsed: types.Gas(small(r))}
	}
	s.Pi.Services = types.ServicesStatistics{}
	for i, n := 0, r.Intn(4); i < n; i++ {
		s.Pi.Services[types.ServiceID(small(r))] = types.ServiceActivityRecord{ProvidedCount: types.U16(small(r)), ProvidedSize: types.U32(small(r)),
			RefinementCount: types.U32(small(r)), RefinementGasUsed: types.Gas(small(r)), Imports: types.U32(small(r)), ExtrinsicCount: types.U32(small(r)),
			ExtrinsicSize: types.U32(small(r)), Exports: types.U32(small(r)), AccumulateCount: types.U32(small(r)), AccumulateGasUsed: types.Gas(small(r))}
	}
	// vartheta, xi
	s.Vartheta = make(types.ReadyQueue, E)
	s.Xi = make(types.AccumulatedQueue, E)
	for e := 0; e < E; e++ {
		s.Vartheta[e] = types.ReadyQueueItem{}
		if r.Chance(1, 4) {
			for i, n := 0, 1+r.Intn(2); i < n; i++ {
				rr := types.ReadyRecord{Report: workReport(r), Dependencies: []types.WorkPackageHash{}}
				for j, k := 0, r.Intn(3); j < k; j++ {
					rr.Dependencies = append(rr.Dependencies, types.WorkPackageHash(h32(r)))
				}
				s.Vartheta[e] = append(s.Vartheta[e], rr)
			}
		}
		s.Xi[e] = types.AccumulatedQueueItem{}
		for i, n := 0, r.Intn(3); i < n; i++ {
			s.Xi[e] = append(s.Xi[e], types.WorkPackageHash(h32(r)))
		}
	}
	// theta (last accumulation outputs)
	s.Theta = types.LastAccOut{}
	for i, n := 0, r.Intn(4); i < n; i++ {
		s.Theta = append(s.Theta, types.AccumulatedServiceHash{ServiceID: types.ServiceID(small(r)), Hash: h32(r)})
	}
	return s
}

func genInfo(r *h.Rng) types.ServiceInfo {
	return types.ServiceInfo{Version: types.ServiceInfoVersion, CodeHash: h32(r), Balance: types.U64(small(r)), MinItemGas: types.Gas(small(r)),
		MinMemoGas: types.Gas(small(r)), Bytes: types.U64(small(r)), DepositOffset: types.U64(small(r)), Items: types.U32(small(r)),
		CreationSlot: types.TimeSlot(small(r)), LastAccumulationSlot: types.TimeSlot(small(r)), ParentService: types.ServiceID(small(r))}
}

// ---------------------------------------------------------------------------------------------
// generation of cases

func genSid(r *h.Rng) uint32 {
	switch r.Intn(8) {
	case 0:
		return uint32(r.Intn(4))
	case 1:
		return uint32(255) << uint(8*r.Intn(4)) // one byte 0xff (first key byte of service-info keys)
	case 2:
		return ^uint32(0) - uint32(r.Intn(3))
	case 3:
		return uint32(1+r.Intn(16)) << uint(8*r.Intn(4)) // collides with component indices in some byte
	case 4:
		return uint32(r.Intn(65536))
	default:
		return uint32(r.U64())
	}
}

func blobLen(r *h.Rng) int {
	switch r.Intn(8) {
	case 0:
		return 0
	case 1:
		return 1
	case 2:
		return 32
	case 3:
		return 33
	case 4:
		return 100 + r.Intn(200)
	default:
		return r.Intn(70)
	}
}

func slotsHex(r *h.Rng) string {
	n := r.Intn(4)
	return h.Hex(r.Bytes(4 * n))
}

func gen(rng *h.Rng, tier string, emit func(string)) {
	st := h.Stats{}
	ncases := 800
	if tier == "thorough" {
		ncases = 40000
	}
	for c := 0; c < ncases; c++ {
		r := rng.Fork()
		var sb strings.Builder
		nsvc := r.Intn(9)
		if c < 3 {
			nsvc = c // 0,1,2 services first
		}
		fmt.Fprintf(&sb, "rt %d %d %d", r.U64()>>1, r.U64()>>1, nsvc)
		used := map[uint32]bool{}
		allBlobs := [][]byte{}
		for i := 0; i < nsvc; i++ {
			sid := genSid(r)
			for used[sid] {
				sid = uint32(r.U64())
			}
			used[sid] = true
			fmt.Fprintf(&sb, " %d %d", sid, r.U64()>>1)
			// storage
			ns := r.Intn(7)
			if r.Chance(1, 6) {
				ns = 0
			}
			fmt.Fprintf(&sb, " %d", ns)
			seenK := map[string]bool{}
			for j := 0; j < ns; j++ {
				var k []byte
				switch r.Intn(6) {
				case 0:
					k = r.Bytes(32) // same shape as the tail of preimage / lookup key preimages
				case 1:
					k = []byte{}
				default:
					k = r.Bytes(1 + r.Intn(40))
				}
				if seenK[string(k)] {
					k = r.Bytes(41)
				}
				seenK[string(k)] = true
				fmt.Fprintf(&sb, " %s %s", h.Hex(k), h.Hex(r.Bytes(blobLen(r))))
				st.Inc("storage-entries")
			}
			// preimages
			np := r.Intn(5)
			if r.Chance(1, 6) {
				np = 0
			}
			blobs := [][]byte{}
			seenB := map[string]bool{}
			for j := 0; j < np; j++ {
				b := r.Bytes(blobLen(r))
				if len(allBlobs) > 0 && r.Chance(1, 5) {
					b = allBlobs[r.Intn(len(allBlobs))] // the same blob in several services
					st.Inc("preimage-shared-between-services")
				}
				if seenB[string(b)] {
					continue
				}
				seenB[string(b)] = true
				blobs = append(blobs, b)
			}
			allBlobs = append(allBlobs, blobs...)
			wrong := -1
			if len(blobs) > 0 && r.Chance(1, 12) {
				wrong = r.Intn(len(blobs))
			}
			fmt.Fprintf(&sb, " %d", len(blobs))
			for j, b := range blobs {
				if j == wrong {
					fmt.Fprintf(&sb, " %s=%s", h.Hex(r.Bytes(32)), h.Hex(b))
					st.Inc("preimage-filed-under-foreign-hash")
				} else {
					fmt.Fprintf(&sb, " %s", h.Hex(b))
				}
				st.Inc("preimage-entries")
			}
			// lookups: matching a preimage (hash and length), right hash / wrong length, no preimage at all
			nl := r.Intn(6)
			if r.Chance(1, 6) {
				nl = 0
			}
			type lk struct {
				hs string
				l  uint32
			}
			lks := []lk{}
			seenL := map[lk]bool{}
			for j := 0; j < nl; j++ {
				var e lk
				kind := r.Intn(5)
				switch {
				case kind <= 1 && len(blobs) > 0:
					b := blobs[r.Intn(len(blobs))]
					hh := hash.Blake2bHash(b)
					e = lk{h.Hex(hh[:]), uint32(len(b))}
					if !seenL[e] {
						st.Inc("lookup-with-preimage")
					}
				case kind == 2 && len(blobs) > 0:
					b := blobs[r.Intn(len(blobs))]
					hh := hash.Blake2bHash(b)
					e = lk{h.Hex(hh[:]), uint32(len(b) + 1 + r.Intn(3))}
					if !seenL[e] {
						st.Inc("lookup-wrong-length")
					}
				default:
					l := uint32(r.Intn(5000))
					if r.Chance(1, 8) {
						l = ^uint32(0) - 2 - uint32(r.Intn(3)) // just below the reserved prefixes 2^32-2, 2^32-1
					}
					e = lk{h.Hex(r.Bytes(32)), l}
					if !seenL[e] {
						st.Inc("lookup-without-preimage")
					}
				}
				if seenL[e] {
					continue
				}
				seenL[e] = true
				lks = append(lks, e)
			}
			fmt.Fprintf(&sb, " %d", len(lks))
			for _, e := range lks {
				fmt.Fprintf(&sb, " %s %d %s", e.hs, e.l, slotsHex(r))
			}
		}
		if r.Chance(1, 3) {
			nx := 1 + r.Intn(3)
			fmt.Fprintf(&sb, " x %d", nx)
			seenX := map[string]bool{}
			for j := 0; j < nx; j++ {
				k := r.Bytes(31)
				kind := r.Intn(5)
				if kind == 2 && len(seenX) > 0 {
					kind = 4 // at most one of the five unknown-component keys per case: keys stay pairwise different
				}
				switch kind {
				case 0: // component index in front, one non-zero byte in the tail
					k = make([]byte, 31)
					k[0] = byte(1 + r.Intn(16))
					k[1+r.Intn(30)] = byte(1 + r.Intn(255))
					st.Inc("foreign-near-component-key")
				case 1: // 0xff in front, service-id bytes, one non-zero byte where a service-information key has zero
					k = make([]byte, 31)
					k[0] = 0xff
					k[1], k[3], k[5], k[7] = byte(r.U64()), byte(r.U64()), byte(r.U64()), byte(r.U64())
					z := []int{2, 4, 6, 8 + r.Intn(23)}
					k[z[r.Intn(4)]] = byte(1 + r.Intn(255))
					st.Inc("foreign-near-info-key")
				case 2: // component index outside 1..16 with zero tail
					k = make([]byte, 31)
					k[0] = []byte{0, 17, 18, 100, 254}[r.Intn(5)]
					if seenX[string(k)] {
						k = r.Bytes(31)
					}
					st.Inc("foreign-unknown-component")
				default:
					st.Inc("foreign-random-key")
				}
				seenX[string(k)] = true
				fmt.Fprintf(&sb, " %s %s", h.Hex(k), h.Hex(r.Bytes(blobLen(r))))
			}
		}
		st.Inc(fmt.Sprintf("services-%d", nsvc))
		emit(sb.String())
	}
	h.EmitStats(emit, st)
}

// ---------------------------------------------------------------------------------------------
// execution

type toks struct {
	f []string
	i int
}

func (t *toks) next() string {
	if t.i >= len(t.f) {
		panic("verifh: truncated case")
	}
	s := t.f[t.i]
	t.i++
	return s
}
func (t *toks) u() uint64 { return h.U(t.next()) }

func buildState(t *toks) types.State {
	cseed := t.u()
	s := genComponents(h.NewRng(cseed))
	s.Delta = types.ServiceAccountState{}
	return s
}

func kvMap(kvs types.StateKeyVals) (map[types.StateKey][]byte, bool) {
	mm := make(map[types.StateKey][]byte, len(kvs))
	dup := false
	for _, kv := range kvs {
		if _, ok := mm[kv.Key]; ok {
			dup = true
		}
		mm[kv.Key] = kv.Value
	}
	return mm, dup
}

// diff lists missing keys, extra keys and changed values of got with respect to want, canonically.
func diff(want, got types.StateKeyVals) string {
	wm, wd := kvMap(want)
	gm, gd := kvMap(got)
	var missing, extra, changed []string
	for k, v := range wm {
		g, ok := gm[k]
		if !ok {
			missing = append(missing, h.Hex(k[:]))
		} else if !bytes.Equal(v, g) {
			changed = append(changed, h.Hex(k[:])+":"+h.Hex(v)+"->"+h.Hex(g))
		}
	}
	for k := range gm {
		if _, ok := wm[k]; !ok {
			extra = append(extra, h.Hex(k[:]))
		}
	}
	if len(missing)+len(extra)+len(changed) == 0 && !wd && !gd && len(want) == len(got) {
		return "ok"
	}
	sort.Strings(missing)
	sort.Strings(extra)
	sort.Strings(changed)
	s := "DIFF(missing=" + strings.Join(missing, ",") + "|extra=" + strings.Join(extra, ",") + "|changed=" + strings.Join(changed, ",")
	if wd {
		s += "|dupkeys-in-export"
	}
	if gd || len(want) != len(got) {
		s += fmt.Sprintf("|dupkeys-in-reexport(%d/%d)", len(got), len(want))
	}
	return s + ")"
}

func isFixedKey(k types.StateKey) bool {
	if k[0] < 1 || k[0] > 16 {
		return false
	}
	for i := 1; i < len(k); i++ {
		if k[i] != 0 {
			return false
		}
	}
	return true
}

func clone(kvs types.StateKeyVals) types.StateKeyVals {
	c := make(types.StateKeyVals, len(kvs))
	for i := range kvs {
		c[i].Key = kvs[i].Key
		c[i].Value = append([]byte{}, kvs[i].Value...)
	}
	return c
}

func run(input string) string {
	t := &toks{f: strings.Fields(input)}
	if t.next() != "rt" {
		panic("verifh: bad case " + input)
	}
	state := buildState(t)
	pseed := t.u()
	nsvc := int(t.u())
	for i := 0; i < nsvc; i++ {
		sid := types.ServiceID(t.u())
		acc := types.ServiceAccount{ServiceInfo: genInfo(h.NewRng(t.u())), PreimageLookup: types.PreimagesMapEntry{},
			LookupDict: types.LookupMetaMapEntry{}, StorageDict: types.Storage{}}
		for j, n := 0, int(t.u()); j < n; j++ {
			k := h.UnHex(t.next())
			acc.StorageDict[string(k)] = h.UnHex(t.next())
		}
		for j, n := 0, int(t.u()); j < n; j++ {
			tok := t.next()
			if i := strings.IndexByte(tok, '='); i >= 0 {
				var hh types.OpaqueHash
				copy(hh[:], h.UnHex(tok[:i]))
				acc.PreimageLookup[hh] = h.UnHex(tok[i+1:])
			} else {
				b := h.UnHex(tok)
				acc.PreimageLookup[hash.Blake2bHash(b)] = b
			}
		}
		for j, n := 0, int(t.u()); j < n; j++ {
			var k types.LookupMetaMapkey
			copy(k.Hash[:], h.UnHex(t.next()))
			k.Length = types.U32(t.u())
			sb := h.UnHex(t.next())
			ts := types.TimeSlotSet{}
			for o := 0; o+4 <= len(sb); o += 4 {
				ts = append(ts, types.TimeSlot(uint32(sb[o])|uint32(sb[o+1])<<8|uint32(sb[o+2])<<16|uint32(sb[o+3])<<24))
			}
			acc.LookupDict[k] = ts
		}
		state.Delta[sid] = acc
	}

	// export
	exported, err := m.StateEncoder(state)
	if err != nil {
		return "export-err"
	}
	orig := clone(exported)
	if t.i < len(t.f) {
		if t.next() != "x" {
			panic("verifh: bad case tail")
		}
		for j, n := 0, int(t.u()); j < n; j++ {
			var kv types.StateKeyVal
			kb := h.UnHex(t.next())
			if len(kb) != 31 {
				panic("verifh: foreign key length")
			}
			copy(kv.Key[:], kb)
			kv.Value = h.UnHex(t.next())
			orig = append(orig, kv)
		}
		sort.Slice(orig, func(i, j int) bool { return bytes.Compare(orig[i].Key[:], orig[j].Key[:]) < 0 })
	}
	var out strings.Builder
	fmt.Fprintf(&out, "n=%d keys=", len(orig))
	for i, kv := range orig { // sorted by key
		if i > 0 {
			out.WriteByte(',')
		}
		out.WriteString(h.Hex(kv.Key[:]))
		if !isFixedKey(kv.Key) && !m.IsServiceInfoKey(kv.Key) {
			out.WriteString(":" + h.Hex(kv.Value))
		}
	}
	root1 := m.MerklizationSerializedState(clone(orig))

	// permute and import
	perm := clone(orig)
	pr := h.NewRng(pseed)
	for i := len(perm) - 1; i > 0; i-- {
		j := pr.Intn(i + 1)
		perm[i], perm[j] = perm[j], perm[i]
	}
	parsed, raw, err := m.StateKeyValsToState(clone(perm))
	if err != nil {
		return out.String() + " import-err"
	}
	// what was attributed
	sids := make([]int, 0, len(parsed.Delta))
	for sid := range parsed.Delta {
		sids = append(sids, int(sid))
	}
	sort.Ints(sids)
	out.WriteString(" parsed=")
	for i, sid := range sids {
		if i > 0 {
			out.WriteByte(';')
		}
		a := parsed.Delta[types.ServiceID(sid)]
		lk := []string{}
		for k := range a.LookupDict {
			lk = append(lk, fmt.Sprintf("%s:%d", h.Hex(k.Hash[:]), k.Length))
		}
		sort.Strings(lk)
		fmt.Fprintf(&out, "%d/%d/%s", sid, len(a.PreimageLookup), strings.Join(lk, ","))
		if len(a.StorageDict) != 0 {
			out.WriteString("/storage-attributed")
		}
	}
	if len(sids) == 0 {
		out.WriteString("-")
	}
	rk := []string{}
	for _, kv := range raw {
		rk = append(rk, h.Hex(kv.Key[:]))
	}
	sort.Strings(rk)
	out.WriteString(" raw=")
	if len(rk) == 0 {
		out.WriteString("-")
	}
	out.WriteString(strings.Join(rk, ","))

	// re-export: parsed state + raw entries
	re, err := m.StateEncoder(parsed)
	if err != nil {
		return out.String() + " reexport-err"
	}
	full := append(clone(re), clone(raw)...)
	out.WriteString(" roundtrip " + diff(orig, full))
	root2 := m.MerklizationSerializedState(clone(full))
	if root1 == root2 {
		out.WriteString(" roots eq " + h.Hex(root1[:]))
	} else {
		out.WriteString(" roots ne " + h.Hex(root1[:]) + " " + h.Hex(root2[:]))
	}

	// the node's use: fuzz SetState -> GetState -> RestoreBlockAndState
	out.WriteString(" node " + nodePath(orig, perm, root1, pseed))
	return out.String()
}

func nodePath(orig, perm types.StateKeyVals, root1 types.StateRoot, pseed uint64) string {
	svc := &fuzz.FuzzServiceStub{}
	hr := h.NewRng(pseed ^ 0x5a5a)
	var header types.Header
	copy(header.Parent[:], hr.Bytes(32))
	header.Slot = types.TimeSlot(hr.Intn(1000))
	hh, err := hash.ComputeBlockHeaderHash(header)
	if err != nil {
		return "header-err"
	}
	rootS, err := svc.SetState(header, clone(perm), nil)
	if err != nil {
		return "setstate-err"
	}
	problems := []string{}
	if rootS != root1 {
		problems = append(problems, "setstate-root:"+h.Hex(rootS[:]))
	}
	cs := blockchain.GetInstance()
	stored, err := svc.GetState(hh)
	if err != nil {
		return "getstate-err"
	}
	if d := diff(orig, stored); d != "ok" {
		problems = append(problems, "getstate:"+d)
	}
	if r, err := cs.GetStateRootByBlockHash(hh); err != nil || r != root1 {
		problems = append(problems, "stored-root:"+h.Hex(r[:]))
	}
	if err := cs.RestoreBlockAndState(hh); err != nil {
		return "restore-err"
	}
	prior := cs.GetPriorStates().GetState()
	re, err := m.StateEncoder(prior)
	if err != nil {
		return "restore-reexport-err"
	}
	full := append(clone(re), cs.GetPriorStateUnmatchedKeyVals()...)
	if d := diff(orig, full); d != "ok" {
		problems = append(problems, "restored:"+d)
	}
	if d := diff(orig, append(clone(re), cs.GetPostStateUnmatchedKeyVals()...)); d != "ok" {
		problems = append(problems, "restored-post:"+d)
	}
	if r := cs.ComputeStateRootWithCache(clone(full)); r != root1 {
		problems = append(problems, "restored-root:"+h.Hex(r[:]))
	}
	if len(problems) == 0 {
		return "ok"
	}
	return strings.Join(problems, "+")
}

func main() {
	os.Setenv("JAM_FUZZ", "1") // in-memory repositories only (no Redis / Pebble)
	logger.Disable()
	types.SetTinyMode()
	h.Main(gen, run)
}
