//go:build verif

// C32 harness: work digest (work_package.C), package specification (work_package.A) and whole reports
// (work_package.WorkReportCompute with a scripted PVM executor).  Built with the overlay stand-ins for pkg/Rust-VRF and
// pkg/erasure_coding; the erasure root is never compared.
//
// case inputs:
//
//	dig <ITEM> <RESULT> <gas>            work_package.C(item, result, gas)
//	spec <pkghash> <bundle> <EXPORTS>    work_package.A(hash, bundle, exports)
//	wrc <authlen> <bundle> <n> { <ITEM> <REFINE> }*n      work_package.WorkReportCompute with a scripted executor
//
//	ITEM    = <service> <codehash32> <payload> <refinegas> <accgas> <exportcount> <nimports> <xlens: a,b,c | ->
//	RESULT  = ok:<n>x<byte> | out-of-gas | panic | bad-exports | output-oversize | bad-code | code-oversize
//	REFINE  = <RESULT> <gas> <EXPORTS>            (what RefineInvoke returns for the item)
//	EXPORTS = <k> {<prefixhex>}*k                 (segment = prefix zero-padded to 4104 octets)
//
// outputs: digest  "s=.. c=.. y=.. g=.. r=<kind | ok:<len>:<blake2b of the data>> u=.. i=.. x=.. z=.. e=.."
//
//	spec    "p=.. l=.. n=.. e=.."  (hash, length, exports count, exports root)  or "err"
//	wrc     digests joined by " / " then " // " spec, or "err"
package main

import (
	"fmt"
	"os"
	"strconv"
	"strings"

	"github.com/New-JAMneration/JAM-Protocol/PVM"
	"github.com/New-JAMneration/JAM-Protocol/internal/types"
	"github.com/New-JAMneration/JAM-Protocol/internal/utilities/hash"
	h "github.com/New-JAMneration/JAM-Protocol/internal/verifh"
	"github.com/New-JAMneration/JAM-Protocol/internal/work_package"
	"github.com/New-JAMneration/JAM-Protocol/logger"
)

type reader struct {
	f []string
	i int
}

func (r *reader) next() string {
	if r.i >= len(r.f) {
		panic("verifh: truncated case")
	}
	s := r.f[r.i]
	r.i++
	return s
}

func h32(b []byte) (o types.OpaqueHash) {
	if len(b) != 32 {
		panic("verifh: hash token is not 32 bytes")
	}
	copy(o[:], b)
	return o
}

func (r *reader) item() types.WorkItem {
	it := types.WorkItem{}
	it.Service = types.ServiceID(h.U(r.next()))
	it.CodeHash = h32(h.UnHex(r.next()))
	it.Payload = types.ByteSequence(h.UnHex(r.next()))
	it.RefineGasLimit = types.Gas(h.U(r.next()))
	it.AccumulateGasLimit = types.Gas(h.U(r.next()))
	it.ExportCount = types.U16(h.U(r.next()))
	ni := h.I(r.next())
	it.ImportSegments = make([]types.ImportSpec, ni)
	for i := range it.ImportSegments {
		it.ImportSegments[i].Index = types.U16(i)
		it.ImportSegments[i].TreeRoot[0] = byte(i + 1)
	}
	xl := r.next()
	it.Extrinsic = []types.ExtrinsicSpec{}
	if xl != "-" {
		for k, s := range strings.Split(xl, ",") {
			// "<len>" = a fresh blob; "<len>=<j>" = the very blob of position j again (same hash, same length):
			// one extrinsic referenced twice counts twice in the refine load
			ref := k
			if i := strings.Index(s, "="); i >= 0 {
				ref = h.I(s[i+1:])
				s = s[:i]
			}
			x := types.ExtrinsicSpec{Len: types.U32(h.U(s))}
			x.Hash[0], x.Hash[1] = byte(ref), 0xE0
			it.Extrinsic = append(it.Extrinsic, x)
		}
	}
	return it
}

func parseResult(tok string) (types.WorkExecResultType, []byte) {
	if strings.HasPrefix(tok, "ok:") {
		p := strings.Split(tok[3:], "x")
		n := h.I(p[0])
		b := byte(h.U(p[1]))
		d := make([]byte, n)
		for i := range d {
			d[i] = b
		}
		return types.WorkExecResultOk, d
	}
	return types.WorkExecResultType(tok), nil
}

func (r *reader) exports() []types.ExportSegment {
	k := h.I(r.next())
	out := make([]types.ExportSegment, k)
	for i := range out {
		copy(out[i][:], h.UnHex(r.next()))
	}
	return out
}

func resTok(x types.WorkExecResult) string {
	if x.Type == types.WorkExecResultOk {
		hs := hash.Blake2bHash(x.Data)
		return fmt.Sprintf("ok:%d:%s", len(x.Data), h.Hex(hs[:]))
	}
	return string(x.Type)
}

func digTok(d types.WorkResult) string {
	return fmt.Sprintf("s=%d c=%s y=%s g=%d r=%s u=%d i=%d x=%d z=%d e=%d", d.ServiceID, h.Hex(d.CodeHash[:]), h.Hex(d.PayloadHash[:]),
		d.AccumulateGas, resTok(d.Result), d.RefineLoad.GasUsed, d.RefineLoad.Imports, d.RefineLoad.ExtrinsicCount,
		d.RefineLoad.ExtrinsicSize, d.RefineLoad.Exports)
}

func specTok(s types.WorkPackageSpec) string {
	return fmt.Sprintf("p=%s l=%d n=%d e=%s", h.Hex(s.Hash[:]), s.Length, s.ExportsCount, h.Hex(s.ExportsRoot[:]))
}

// scripted executor: Psi_I authorises with a fixed-length output; RefineInvoke returns the scripted outcome of the item
type script struct {
	auth    []byte
	refines []PVM.RefineOutput
	calls   []uint
}

func (s *script) Psi_I(p types.WorkPackage, c types.CoreIndex, code types.ByteSequence) PVM.Psi_I_ReturnType {
	return PVM.Psi_I_ReturnType{WorkExecResult: types.WorkExecResultOk, WorkOutput: s.auth, Gas: 5}
}
func (s *script) RefineInvoke(in PVM.RefineInput) PVM.RefineOutput {
	s.calls = append(s.calls, in.WorkItemIndex)
	return s.refines[in.WorkItemIndex]
}

func run(input string) string {
	r := &reader{f: strings.Fields(input)}
	switch r.next() {
	case "dig":
		it := r.item()
		ty, data := parseResult(r.next())
		gas := types.Gas(h.U(r.next()))
		return digTok(work_package.C(it, types.WorkExecResult{Type: ty, Data: data}, gas))
	case "spec":
		ph := h32(h.UnHex(r.next()))
		bundle := h.UnHex(r.next())
		ex := r.exports()
		s, err := work_package.A(ph, bundle, ex)
		if err != nil {
			return "err"
		}
		return specTok(s)
	case "wrc":
		authLen := h.I(r.next())
		bundle := h.UnHex(r.next())
		n := h.I(r.next())
		wp := types.WorkPackage{}
		sc := &script{auth: make([]byte, authLen)}
		for i := 0; i < n; i++ {
			wp.Items = append(wp.Items, r.item())
			ty, data := parseResult(r.next())
			gas := types.Gas(h.U(r.next()))
			ex := r.exports()
			if data == nil {
				data = []byte{}
			}
			sc.refines = append(sc.refines, PVM.RefineOutput{WorkResult: ty, RefineOutput: data, ExportSegment: ex, Gas: gas})
		}
		var ph types.OpaqueHash
		ph[0] = 0xAB
		rep, err := work_package.WorkReportCompute(&wp, 1, types.OpaqueHash{}, nil, PVM.ExtrinsicDataMap{}, nil,
			types.ServiceAccountState{}, bundle, ph, sc)
		if err != nil {
			return "err"
		}
		parts := make([]string, len(rep.Results))
		for i, d := range rep.Results {
			parts[i] = digTok(d)
		}
		return strings.Join(parts, " / ") + " // " + specTok(rep.PackageSpec)
	}
	return "BADCASE"
}

// ------------------------------------------------------------------------------------------------ gen
var kinds = []string{"out-of-gas", "panic", "bad-code", "code-oversize"}

func genItem(rng *h.Rng, st h.Stats) string {
	svc := rng.U64() >> uint(32+rng.Intn(32))
	code := rng.Bytes(32)
	payload := rng.Bytes(rng.Intn(40))
	ni := rng.Intn(17)
	nx := rng.Intn(17)
	xl := make([]string, nx)
	for i := range xl {
		var v uint64
		switch rng.Intn(6) {
		case 0:
			v = 0
		case 1:
			v = 65535 + uint64(rng.Intn(3)) // around the 16-bit boundary
		case 2:
			v = uint64(rng.Intn(1 << 24))
		default:
			v = uint64(rng.Intn(5000))
		}
		xl[i] = strconv.FormatUint(v, 10)
		if i > 0 && rng.Chance(1, 5) {
			j := rng.Intn(i) // repeat an earlier extrinsic of this item
			base := xl[j]
			if k := strings.Index(base, "="); k >= 0 {
				base = base[:k]
				j = h.I(xl[j][k+1:])
			}
			xl[i] = base + "=" + strconv.Itoa(j)
		}
	}
	xs := "-"
	if nx > 0 {
		xs = strings.Join(xl, ",")
	}
	ec := uint64(rng.Intn(5))
	if rng.Chance(1, 8) {
		ec = uint64(rng.Intn(3073))
	}
	st.Inc(fmt.Sprintf("item-imports-%02d", ni))
	st.Inc(fmt.Sprintf("item-extrinsics-%02d", nx))
	return fmt.Sprintf("%d %s %s %d %d %d %d %s", svc, h.Hex(code), h.Hex(payload), rng.U64()>>uint(rng.Intn(64)),
		rng.U64()>>uint(rng.Intn(64)), ec, ni, xs)
}

func genResult(rng *h.Rng, maxOk int) string {
	if rng.Chance(1, 3) {
		return append(kinds, "bad-exports", "output-oversize")[rng.Intn(len(kinds)+2)]
	}
	return fmt.Sprintf("ok:%dx%d", rng.Intn(maxOk+1), rng.Intn(256))
}

func genExports(rng *h.Rng, k int) string {
	var b strings.Builder
	fmt.Fprintf(&b, "%d", k)
	for i := 0; i < k; i++ {
		b.WriteString(" " + h.Hex(rng.Bytes(rng.Intn(24))))
	}
	return b.String()
}

func gen(rng *h.Rng, tier string, emit func(string)) {
	st := h.Stats{}
	nd, ns, nw := 20000, 120, 250
	if tier == "thorough" {
		nd, ns, nw = 400000, 1500, 3000
	}
	for i := 0; i < nd; i++ {
		emit(fmt.Sprintf("dig %s %s %d", genItem(rng, st), genResult(rng, 64), rng.U64()>>uint(rng.Intn(64))))
		st.Inc("dig")
	}
	for i := 0; i < ns; i++ {
		k := rng.Intn(9)
		if rng.Chance(1, 10) {
			k = 9 + rng.Intn(60) // more than one page of proofs
		}
		emit(fmt.Sprintf("spec %s %s %s", h.Hex(rng.Bytes(32)), h.Hex(rng.Bytes(1+rng.Intn(200))), genExports(rng, k)))
		st.Inc(fmt.Sprintf("spec-exports-%s", map[bool]string{true: "0", false: "some"}[k == 0]))
	}
	for i := 0; i < nw; i++ {
		n := 1 + rng.Intn(4)
		var b strings.Builder
		authLen := rng.Intn(100)
		if rng.Chance(1, 6) {
			authLen = 20000 + rng.Intn(20000)
		}
		fmt.Fprintf(&b, "wrc %d %s %d", authLen, h.Hex(rng.Bytes(1+rng.Intn(120))), n)
		for j := 0; j < n; j++ {
			st0 := h.Stats{}
			it := genItem(rng, st0)
			f := strings.Fields(it)
			ec := h.I(f[5])
			if ec > 6 {
				ec = rng.Intn(4)
				f[5] = strconv.Itoa(ec)
				it = strings.Join(f, " ")
			}
			maxOk := 64
			if rng.Chance(1, 4) {
				maxOk = 30000 // pushes the running total across the 48 KiB limit
			}
			res := genResult(rng, maxOk)
			k := ec
			if !strings.HasPrefix(res, "ok:") {
				if rng.Bool() {
					k = 0 // what RefineInvoke really returns on failure
				}
			} else if rng.Chance(1, 6) {
				k = rng.Intn(5) // export count mismatch
			}
			if res == "bad-exports" || res == "output-oversize" {
				res = kinds[rng.Intn(len(kinds))]
			}
			fmt.Fprintf(&b, " %s %s %d %s", it, res, rng.U64()>>uint(rng.Intn(64)), genExports(rng, k))
			st.Inc("wrc-item-" + strings.Split(res, ":")[0])
		}
		emit(b.String())
		st.Inc("wrc")
	}
	h.EmitStats(emit, st)
}

func main() {
	os.Setenv("JAM_FUZZ", "1")
	logger.Disable()
	h.Main(gen, run)
}
