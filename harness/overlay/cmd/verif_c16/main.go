//go:build verif

// C16 harness: histories of state-root computations through the real cached path
// (ChainState.ComputeStateRootWithCache -> merklizeWithKeyCache -> MerklizationSerializedStateWithCache ->
// merklizeWithCache -> KeyLevelCache.GetLeafHash/PutLeafHash, ClearKeyLevelCache) on ONE ChainState per history.
//
//	hist <op>*            ops:  S <key> <value>   set (insert at the end, or update in place; a same-length update
//	                                              overwrites the caller's value buffer in place)
//	                            D <key>           remove the key
//	                            R <cap> i|s       types.MaxKeyLevelCacheSize = cap; root of the current entries in
//	                                              insertion order (i) or sorted by key (s)
//	                            C                 ClearKeyLevelCache
//	output: one token per R: <root>/<cache Len()>, per C: c/<Len()>, then buf-ok|buf-mut (caller slices re-read
//	after every computation).
package main

import (
	"bytes"
	"fmt"
	"sort"
	"strings"

	"github.com/New-JAMneration/JAM-Protocol/internal/blockchain"
	"github.com/New-JAMneration/JAM-Protocol/internal/types"
	h "github.com/New-JAMneration/JAM-Protocol/internal/verifh"
)

// ---------------------------------------------------------------------------------------------
// generation

func valLen(rng *h.Rng) int {
	switch rng.Intn(10) {
	case 0:
		return 0
	case 1:
		return 31
	case 2, 3:
		return 32
	case 4, 5:
		return 33
	case 6:
		return 64
	default:
		return rng.Intn(65)
	}
}

func flipAfterPrefix(rng *h.Rng, base [31]byte, p int) [31]byte {
	var k [31]byte
	r := rng.Bytes(31)
	for i := 0; i < 248; i++ {
		bi, mask := i/8, byte(1<<(7-i%8))
		var bit byte
		switch {
		case i < p:
			bit = base[bi] & mask
		case i == p:
			bit = ^base[bi] & mask
		default:
			bit = r[bi] & mask
		}
		k[bi] |= bit
	}
	return k
}

func keyPool(rng *h.Rng, n int) [][31]byte {
	var base [31]byte
	copy(base[:], rng.Bytes(31))
	seen := map[[31]byte]bool{base: true}
	out := [][31]byte{base}
	for len(out) < n {
		p := rng.Intn(12)
		switch rng.Intn(8) {
		case 0:
			p = rng.Intn(248)
		case 1, 2:
			p = rng.Intn(40)
		}
		src := base
		if rng.Chance(1, 3) {
			src = out[rng.Intn(len(out))]
		}
		k := flipAfterPrefix(rng, src, p)
		if !seen[k] {
			seen[k] = true
			out = append(out, k)
		}
	}
	return out
}

func histLen(rng *h.Rng) int {
	switch rng.Intn(10) {
	case 0:
		return 1 + rng.Intn(3)
	case 1, 2, 3, 4:
		return 2 + rng.Intn(20)
	case 5, 6, 7:
		return 10 + rng.Intn(60)
	default:
		return 100 + rng.Intn(101)
	}
}

func poolSize(rng *h.Rng, big bool) int {
	switch rng.Intn(10) {
	case 0:
		return 1 + rng.Intn(3)
	case 1, 2, 3, 4:
		return 2 + rng.Intn(12)
	case 5, 6, 7:
		return 5 + rng.Intn(40)
	default:
		if big {
			return 100 + rng.Intn(101)
		}
		return 20 + rng.Intn(60)
	}
}

func genHistory(rng *h.Rng, st h.Stats) string {
	L := histLen(rng)
	pool := keyPool(rng, poolSize(rng, L <= 40))
	np := len(pool)
	caps := []int{1, 2, 3, 5, 8, np / 2, np - 1, np, np + 1, 2 * np, 600}
	cap0 := caps[rng.Intn(len(caps))]
	if cap0 < 0 {
		cap0 = 0
	}
	if rng.Chance(1, 30) {
		cap0 = 0
	}
	switch {
	case cap0 < np:
		st.Inc("hist-cap-below-keys")
	case cap0 <= np+1:
		st.Inc("hist-cap-at-keys")
	default:
		st.Inc("hist-cap-above-keys")
	}
	var sb strings.Builder
	sb.WriteString("hist")
	cur := map[[31]byte][]byte{}  // live entries
	last := map[[31]byte][]byte{} // last value a removed key had
	old := map[[31]byte][]byte{}  // an older value of a live key
	live := [][31]byte{}
	set := func(k [31]byte, v []byte) {
		if _, ok := cur[k]; !ok {
			live = append(live, k)
		} else {
			old[k] = cur[k]
		}
		cur[k] = v
		fmt.Fprintf(&sb, " S %s %s", h.Hex(k[:]), h.Hex(v))
	}
	del := func(k [31]byte) {
		last[k] = cur[k]
		delete(cur, k)
		for i := range live {
			if live[i] == k {
				live = append(live[:i], live[i+1:]...)
				break
			}
		}
		fmt.Fprintf(&sb, " D %s", h.Hex(k[:]))
	}
	// initial population
	for _, k := range pool {
		if rng.Chance(2, 3) {
			set(k, rng.Bytes(valLen(rng)))
		}
	}
	capNow := cap0
	for r := 0; r < L; r++ {
		if r > 0 {
			nm := rng.Intn(4)
			if rng.Chance(1, 6) {
				nm = 0 // identical entries: every leaf is a hit
				st.Inc("step-unchanged")
			}
			if rng.Chance(1, 10) {
				nm = 1 + rng.Intn(np)
			}
			for j := 0; j < nm; j++ {
				k := pool[rng.Intn(np)]
				v, isLive := cur[k]
				switch c := rng.Intn(12); {
				case !isLive:
					if lv, ok := last[k]; ok && rng.Bool() {
						set(k, lv) // re-insert with the value it had when removed
						st.Inc("mut-reinsert-same")
					} else {
						set(k, rng.Bytes(valLen(rng)))
						st.Inc("mut-insert")
					}
				case c <= 3:
					nv := rng.Bytes(len(v)) // same length, different content
					if len(v) > 0 && rng.Bool() {
						nv = append([]byte{}, v...)
						nv[rng.Intn(len(v))] ^= byte(1 << uint(rng.Intn(8)))
					}
					set(k, nv)
					st.Inc("mut-same-length")
				case c <= 5:
					// flip between embedded and hashed
					var nl int
					if len(v) <= 32 {
						nl = 33 + rng.Intn(3)*15
					} else {
						nl = 32 - rng.Intn(3)*16
					}
					nv := rng.Bytes(nl)
					copy(nv, v) // shares a prefix with the old value
					set(k, nv)
					st.Inc("mut-flip-embedded-hashed")
				case c == 6:
					// same bytes, different length: trailing zero bytes appended or stripped, or a prefix kept
					// (a fingerprint of the value that forgets its length would call this a hit)
					var nv []byte
					switch rng.Intn(4) {
					case 0:
						nv = append(append([]byte{}, v...), make([]byte, 1+rng.Intn(3))...)
					case 1:
						nv = append([]byte{}, v...)
						for len(nv) > 0 && nv[len(nv)-1] == 0 {
							nv = nv[:len(nv)-1]
						}
						if len(nv) == len(v) && len(nv) > 0 {
							nv[len(nv)-1] = 0
						}
					case 2:
						nv = make([]byte, rng.Intn(4)) // all-zero value of length 0..3
					default:
						nv = append([]byte{}, v[:len(v)/2]...)
					}
					set(k, nv)
					st.Inc("mut-same-bytes-other-length")
				case c <= 7:
					del(k)
					st.Inc("mut-remove")
				case c == 8:
					if ov, ok := old[k]; ok {
						set(k, ov) // back to an earlier value
						st.Inc("mut-revert")
					} else {
						set(k, rng.Bytes(valLen(rng)))
						st.Inc("mut-random")
					}
				default:
					set(k, rng.Bytes(valLen(rng)))
					st.Inc("mut-random")
				}
			}
			if rng.Chance(1, 12) {
				sb.WriteString(" C")
				st.Inc("op-clear")
			}
			if rng.Chance(1, 25) {
				capNow = caps[rng.Intn(len(caps))]
				if capNow < 0 {
					capNow = 0
				}
				st.Inc("cap-change")
			}
		}
		ord := "s"
		if rng.Chance(1, 3) {
			ord = "i"
		}
		fmt.Fprintf(&sb, " R %d %s", capNow, ord)
		st.Inc("op-root")
	}
	return sb.String()
}

func gen(rng *h.Rng, tier string, emit func(string)) {
	st := h.Stats{}
	n := 110
	if tier == "thorough" {
		n = 6000
	}
	for i := 0; i < n; i++ {
		emit(genHistory(rng, st))
		st.Inc("hist")
	}
	h.EmitStats(emit, st)
}

// ---------------------------------------------------------------------------------------------
// execution

func run(input string) string {
	f := strings.Fields(input)
	if f[0] != "hist" {
		panic("verifh: bad case " + f[0])
	}
	saved := types.MaxKeyLevelCacheSize
	defer func() { types.MaxKeyLevelCacheSize = saved }()
	cs := blockchain.VerifNewCacheChainState()
	vals := map[types.StateKey][]byte{}
	order := []types.StateKey{}
	var out strings.Builder
	bufOK := true
	for i := 1; i < len(f); {
		switch f[i] {
		case "S":
			var k types.StateKey
			copy(k[:], h.UnHex(f[i+1]))
			v := h.UnHex(f[i+2])
			if cur, ok := vals[k]; ok {
				if len(cur) == len(v) {
					copy(cur, v) // the caller reuses its buffer
				} else {
					vals[k] = v
				}
			} else {
				vals[k] = v
				order = append(order, k)
			}
			i += 3
		case "D":
			var k types.StateKey
			copy(k[:], h.UnHex(f[i+1]))
			delete(vals, k)
			for j := range order {
				if order[j] == k {
					order = append(order[:j], order[j+1:]...)
					break
				}
			}
			i += 2
		case "R":
			types.MaxKeyLevelCacheSize = h.I(f[i+1])
			kvs := make(types.StateKeyVals, 0, len(order))
			for _, k := range order {
				kvs = append(kvs, types.StateKeyVal{Key: k, Value: vals[k]})
			}
			if f[i+2] == "s" {
				sort.Slice(kvs, func(a, b int) bool { return bytes.Compare(kvs[a].Key[:], kvs[b].Key[:]) < 0 })
			}
			keepK := make([]types.StateKey, len(kvs))
			keepV := make([][]byte, len(kvs))
			for j := range kvs {
				keepK[j] = kvs[j].Key
				keepV[j] = append([]byte{}, kvs[j].Value...)
			}
			root := cs.ComputeStateRootWithCache(kvs)
			for j := range kvs {
				if kvs[j].Key != keepK[j] || !bytes.Equal(kvs[j].Value, keepV[j]) {
					bufOK = false
				}
			}
			fmt.Fprintf(&out, "%s/%d ", h.Hex(root[:]), cs.VerifKeyCacheLen())
			i += 3
		case "C":
			cs.ClearKeyLevelCache()
			fmt.Fprintf(&out, "c/%d ", cs.VerifKeyCacheLen())
			i++
		default:
			panic("verifh: bad op " + f[i])
		}
	}
	if bufOK {
		out.WriteString("buf-ok")
	} else {
		out.WriteString("buf-mut")
	}
	return out.String()
}

func main() { h.Main(gen, run) }
