//go:build verif

// C12 harness: the five natural-number codecs of the node against one model.
// input  :  enc <codec> <value>            output:  <hex>
//           dec <codec> <hex>              output:  ok <value> <consumed> | err
// codecs :  types (Encoder.EncodeUint / Decoder.DecodeUint), reader (Decoder over a buffer:
//           DecodeLength), util (SerializeU64/DeserializeU64), pvm (ReadUintVariable),
//           telem (EncodeNatural/ReadNatural), fuzz (compactEncode/compactDecode)
package main

import (
	"fmt"
	"strings"

	"github.com/New-JAMneration/JAM-Protocol/PVM"
	"github.com/New-JAMneration/JAM-Protocol/internal/fuzz"
	"github.com/New-JAMneration/JAM-Protocol/internal/telemetry"
	"github.com/New-JAMneration/JAM-Protocol/internal/types"
	"github.com/New-JAMneration/JAM-Protocol/internal/utilities"
	h "github.com/New-JAMneration/JAM-Protocol/internal/verifh"
)

var encCodecs = []string{"types", "util", "telem", "fuzz"}
var decCodecs = []string{"types", "reader", "util", "pvm", "telem", "fuzz"}

func gen(rng *h.Rng, tier string, emit func(string)) {
	st := h.Stats{}
	values := []uint64{}
	for k := 0; k < 64; k++ {
		p := uint64(1) << uint(k)
		values = append(values, p-1, p, p+1)
	}
	values = append(values, ^uint64(0), ^uint64(0)-1)
	nrand := 2000
	if tier == "thorough" {
		nrand = 200000
	}
	for i := 0; i < nrand; i++ {
		v := rng.U64() >> uint(rng.Intn(64))
		values = append(values, v)
	}
	for _, v := range values {
		for _, c := range encCodecs {
			emit(fmt.Sprintf("enc %s %d", c, v))
			st.Inc("enc")
		}
	}
	decAll := func(b []byte, kind string) {
		for _, c := range decCodecs {
			emit(fmt.Sprintf("dec %s %s", c, h.Hex(b)))
		}
		st.Inc("dec-" + kind)
	}
	// exhaustive: all byte strings of length 1 and 2; length 3 exhaustive in thorough, sampled in quick
	for a := 0; a < 256; a++ {
		decAll([]byte{byte(a)}, "len1")
		for b := 0; b < 256; b++ {
			decAll([]byte{byte(a), byte(b)}, "len2")
		}
	}
	if tier == "thorough" {
		for a := 0; a < 256; a++ {
			for b := 0; b < 256; b++ {
				for c := 0; c < 256; c += 1 {
					decAll([]byte{byte(a), byte(b), byte(c)}, "len3")
				}
			}
		}
	} else {
		for i := 0; i < 20000; i++ {
			decAll([]byte{byte(0x80 + rng.Intn(128)), byte(rng.Intn(256)), byte(rng.Intn(256))}, "len3")
		}
	}
	// 9-byte strings with prefix 0xFF and boundary / random suffix
	for _, v := range values {
		b := []byte{0xFF, byte(v), byte(v >> 8), byte(v >> 16), byte(v >> 24), byte(v >> 32), byte(v >> 40), byte(v >> 48), byte(v >> 56)}
		decAll(b, "ff9")
	}
	// every prefix of every encoding (truncations), and encodings followed by junk, and
	// every non-minimal longer form of small values
	for _, v := range values {
		e := utilities.SerializeU64(types.U64(v))
		for n := 0; n <= len(e); n++ {
			decAll(e[:n], "prefix")
		}
		decAll(append(append([]byte{}, e...), rng.Bytes(1+rng.Intn(3))...), "trailing")
	}
	for i := 0; i < nrand; i++ {
		l := 1 + rng.Intn(7)
		pre := byte(uint(256-(1<<uint(8-l))) & 0xFF)
		b := make([]byte, 1+l)
		b[0] = pre + byte(rng.Intn(1<<uint(7-l)))
		small := rng.U64() >> uint(8+rng.Intn(56))
		for j := 0; j < l; j++ {
			b[1+j] = byte(small >> uint(8*j))
		}
		decAll(b, "nonminimal-candidate")
	}
	h.EmitStats(emit, st)
}

func run(input string) string {
	f := strings.Fields(input)
	switch f[0] {
	case "enc":
		v := h.U(f[2])
		switch f[1] {
		case "types":
			b, err := types.NewEncoder().EncodeUint(v)
			if err != nil {
				return "err"
			}
			return h.Hex(b)
		case "util":
			return h.Hex(utilities.SerializeU64(types.U64(v)))
		case "telem":
			return h.Hex(telemetry.EncodeNatural(v))
		case "fuzz":
			return h.Hex(fuzz.VerifCompactEncode(v))
		}
	case "dec":
		b := h.UnHex(f[2])
		switch f[1] {
		case "types":
			// DecodeUint is given exactly the bytes the prefix announces (as its callers do);
			// consumed = that count
			if len(b) == 0 {
				return "err"
			}
			d := types.NewDecoder()
			n := 1 + int(d.IdentifyLength(b[0]))
			if len(b) < n {
				return "err"
			}
			v, err := d.DecodeUint(b[:n])
			if err != nil {
				return "err"
			}
			return fmt.Sprintf("ok %d %d", v, n)
		case "reader":
			v, n, err := types.VerifDecodeLength(b)
			if err != nil {
				return "err"
			}
			return fmt.Sprintf("ok %d %d", v, n)
		case "util":
			// DeserializeU64 does not report consumption; consumed is derived from the prefix
			v, err := utilities.DeserializeU64(b)
			if err != nil {
				return "err"
			}
			return fmt.Sprintf("ok %d %d", v, len(utilities.SerializeU64(v)))
		case "pvm":
			v, n, ex := PVM.ReadUintVariable(b)
			if ex != PVM.ExitContinue {
				return "err"
			}
			return fmt.Sprintf("ok %d %d", v, n)
		case "telem":
			d := telemetry.NewDecoder(b)
			v, err := d.ReadNatural()
			if err != nil {
				return "err"
			}
			return fmt.Sprintf("ok %d %d", v, d.Pos())
		case "fuzz":
			v, n := fuzz.VerifCompactDecode(b)
			if n == 0 {
				return "err"
			}
			return fmt.Sprintf("ok %d %d", v, n)
		}
	}
	panic("verifh: bad case " + input)
}

func main() { h.Main(gen, run) }
