//go:build verif

// C18 harness: the binary Merkle functions of internal/utilities/merkle_tree and their users.
//
// Elements of the input sequence are tokens: hex, "-" (empty, non-nil) or "nil" (nil slice).
// <h> selects the hash: b = Blake2b-256, k = Keccak-256.
//
//	N  <h> e...            -> hex of merkle_tree.N
//	Mb <h> e...            -> hex of merkle_tree.Mb
//	M  <h> e...            -> hex of merkle_tree.M
//	C  <h> e...            -> comma list of merkle_tree.C
//	T  <h> <i> e...        -> comma list of merkle_tree.T(v,i)
//	Ps <i> e... / PI <i> e... -> merkle_tree.Ps (the half holding index i) / merkle_tree.PI (its offset)
//	Jx <h> <x> <i> e...    -> comma list of merkle_tree.Jx(x,v,i)
//	Lx <h> <x> <i> e...    -> comma list of merkle_tree.Lx(x,v,i)
//	vfy <h> <pi> <ui> <leaf> e... -> VerifyMerkleProof(leaf, Jx(0,v,pi), ui, M(v)) as true/false
//	copath <i> e...        -> hex of ce.constructMerkleCoPath(v,i) or err
//	Tall <h> e...          -> T(v,i) for EVERY index i, joined by ";"
//	Jall <h> <x> e...      -> "Jx(x,v,p)/Lx(x,v,p)" for EVERY page p of size 2^x, joined by ";"
//	Vall <h> e...          -> for EVERY index i two letters t/f: VerifyMerkleProof of leaf i with J_0(v,i)
//	                          at index i, and at the wrong index (i+1) mod |v|
//	Call e...              -> constructMerkleCoPath(v,i) for EVERY index i and for i = |v|, joined by ";"
//	paged t...             -> work_package.PagedProofs; every token t is a hex pattern repeated to
//	                          fill one 4104-byte export segment; output: number of pages, then per
//	                          page "<len>:<hex without trailing zero bytes>"
//
// After each call the harness re-reads the caller's input sequence; if the callee modified it the
// output gets the suffix " INPUT-MUTATED".
package main

import (
	"bytes"
	"fmt"
	"os"
	"strings"

	"github.com/New-JAMneration/JAM-Protocol/internal/networking/handler/ce"
	"github.com/New-JAMneration/JAM-Protocol/internal/types"
	"github.com/New-JAMneration/JAM-Protocol/internal/utilities/hash"
	"github.com/New-JAMneration/JAM-Protocol/internal/utilities/merkle_tree"
	h "github.com/New-JAMneration/JAM-Protocol/internal/verifh"
	"github.com/New-JAMneration/JAM-Protocol/internal/work_package"
)

type hashFn = func(types.ByteSequence) types.OpaqueHash

func pickHash(s string) hashFn {
	if s == "k" {
		return hash.KeccakHash
	}
	return hash.Blake2bHash
}

func elemTok(b []byte) string {
	if b == nil {
		return "nil"
	}
	return h.Hex(b)
}

func parseElems(toks []string) []types.ByteSequence {
	v := make([]types.ByteSequence, 0, len(toks))
	for _, t := range toks {
		if t == "nil" {
			v = append(v, nil)
		} else {
			v = append(v, types.ByteSequence(h.UnHex(t)))
		}
	}
	return v
}

func cloneSeq(v []types.ByteSequence) []types.ByteSequence {
	c := make([]types.ByteSequence, len(v))
	for i, e := range v {
		if e != nil {
			c[i] = append(types.ByteSequence{}, e...)
		}
	}
	return c
}

func sameSeq(a, b []types.ByteSequence) bool {
	if len(a) != len(b) {
		return false
	}
	for i := range a {
		if (a[i] == nil) != (b[i] == nil) || !bytes.Equal(a[i], b[i]) {
			return false
		}
	}
	return true
}

func joinSeq(l []types.ByteSequence) string {
	if len(l) == 0 {
		return "[]"
	}
	s := make([]string, len(l))
	for i, e := range l {
		s[i] = h.Hex(e)
	}
	return strings.Join(s, ",")
}

func joinHashes(l []types.OpaqueHash) string {
	if len(l) == 0 {
		return "[]"
	}
	s := make([]string, len(l))
	for i, e := range l {
		s[i] = h.Hex(e[:])
	}
	return strings.Join(s, ",")
}

// ---------------------------------------------------------------------------------------------
// generation

type flavour struct {
	name string
	mk   func(rng *h.Rng, n int) []string
}

func randTok(rng *h.Rng, n int) string { return h.Hex(rng.Bytes(n)) }

var flavours = []flavour{
	{"h32", func(rng *h.Rng, n int) []string { // what M/Jx users feed: 32-byte hashes
		v := make([]string, n)
		for i := range v {
			v[i] = randTok(rng, 32)
		}
		return v
	}},
	{"var", func(rng *h.Rng, n int) []string { // blobs of varying length, some empty
		v := make([]string, n)
		for i := range v {
			switch rng.Intn(6) {
			case 0:
				v[i] = "-"
			case 1:
				v[i] = randTok(rng, 1)
			default:
				v[i] = randTok(rng, 1+rng.Intn(40))
			}
		}
		return v
	}},
	{"mix", func(rng *h.Rng, n int) []string { // nil / empty / short elements mixed
		v := make([]string, n)
		for i := range v {
			switch rng.Intn(4) {
			case 0:
				v[i] = "nil"
			case 1:
				v[i] = "-"
			default:
				v[i] = randTok(rng, 1+rng.Intn(4))
			}
		}
		return v
	}},
	{"nilfirst", func(rng *h.Rng, n int) []string { // nil first element, nil at the split points
		v := make([]string, n)
		for i := range v {
			v[i] = randTok(rng, 1+rng.Intn(33))
		}
		if n > 0 {
			v[0] = "nil"
		}
		if n > 2 && rng.Bool() {
			v[(n+1)/2] = "nil"
		}
		return v
	}},
	{"emptyfirst", func(rng *h.Rng, n int) []string {
		v := make([]string, n)
		for i := range v {
			v[i] = randTok(rng, 1+rng.Intn(33))
		}
		if n > 0 {
			v[0] = "-"
		}
		return v
	}},
	{"allnil", func(rng *h.Rng, n int) []string {
		v := make([]string, n)
		for i := range v {
			v[i] = "nil"
		}
		return v
	}},
	{"allempty", func(rng *h.Rng, n int) []string {
		v := make([]string, n)
		for i := range v {
			v[i] = "-"
		}
		return v
	}},
	{"equal", func(rng *h.Rng, n int) []string { // all elements equal: position must still matter
		v := make([]string, n)
		t := randTok(rng, 32)
		for i := range v {
			v[i] = t
		}
		return v
	}},
}

func gen(rng *h.Rng, tier string, emit func(string)) {
	st := h.Stats{}
	thorough := tier == "thorough"
	rounds := 1
	if thorough {
		rounds = 3
	}
	for round := 0; round < rounds; round++ {
		for n := 0; n <= 70; n++ {
			for fi, fl := range flavours {
				toks := fl.mk(rng, n)
				v := strings.Join(toks, " ")
				hs := "b"
				if fi%3 == 2 {
					hs = "k"
				}
				one := func(op string, args ...interface{}) {
					s := op
					for _, a := range args {
						s += " " + fmt.Sprint(a)
					}
					if v != "" {
						s += " " + v
					}
					emit(s)
					st.Inc(strings.Fields(op)[0] + "-" + fl.name)
				}
				one("N " + hs)
				one("Mb " + hs)
				one("M " + hs)
				one("C " + hs)
				// whole-sequence sweeps: every index / every page of every page size in one case
				one("Tall " + hs)
				st["index-evals-T"] += n
				for x := 0; x <= 6; x++ {
					one("Jall "+hs, x)
					st["page-evals-JxLx"] += (n + (1 << x) - 1) >> x
				}
				one("Vall " + hs)
				st["index-evals-verify"] += 2 * n
				one("Call")
				st["index-evals-copath"] += n + 1
				if n == 0 {
					// degenerate: T / Jx of the empty sequence at index 0
					one("T "+hs, 0)
					for x := 0; x <= 6; x++ {
						one("Jx "+hs, x, 0)
					}
					continue
				}
				// single-index cases (replayable one by one): every index for short sequences and
				// for the thorough tier, the ends and a sample otherwise
				full := n <= 12 || (thorough && (fi < 2 || n <= 24))
				for i := 0; i < n; i++ {
					if !(full || i == 0 || i == n-1 || rng.Chance(1, 8)) {
						continue
					}
					one("T "+hs, i)
					one("copath", i)
					if fi == 1 || fi == 2 {
						one("Ps", i)
						one("PI", i)
					}
					leaf := toks[i]
					if leaf == "nil" {
						leaf = "-"
					}
					one("vfy "+hs, i, i, leaf)
					if rng.Chance(1, 4) { // wrong leaf, wrong index
						one("vfy "+hs, i, i, randTok(rng, 1+rng.Intn(32)))
						one("vfy "+hs, i, rng.Intn(n), leaf)
					}
				}
				for x := 0; x <= 6; x++ {
					np := (n + (1 << x) - 1) >> x
					for p := 0; p < np; p++ {
						if full || p == 0 || p == np-1 || rng.Chance(1, 8) {
							one("Jx "+hs, x, p)
							one("Lx "+hs, x, p)
						}
					}
				}
				one("copath", n)
				one("copath", n+1+rng.Intn(1000))
			}
		}
	}
	// PagedProofs over export segments (4104 bytes each, built from short patterns)
	sizes := []int{0, 1, 2, 3, 5, 63, 64, 65, 70, 127, 128, 129, 130}
	if thorough {
		sizes = nil
		for n := 0; n <= 200; n++ {
			sizes = append(sizes, n)
		}
		sizes = append(sizes, 255, 256, 257, 320)
	}
	for _, n := range sizes {
		t := make([]string, n)
		for i := range t {
			switch rng.Intn(5) {
			case 0:
				t[i] = "00"
			case 1:
				t[i] = randTok(rng, 1)
			default:
				t[i] = randTok(rng, 8)
			}
		}
		s := "paged"
		if n > 0 {
			s += " " + strings.Join(t, " ")
		}
		emit(s)
		st.Inc("paged")
	}
	h.EmitStats(emit, st)
}

// ---------------------------------------------------------------------------------------------
// execution

var devnull *os.File

func quiet(f func()) {
	// VerifyMerkleProof prints the leaf hash on standard output; keep the protocol stream clean
	old := os.Stdout
	if devnull == nil {
		devnull, _ = os.OpenFile(os.DevNull, os.O_WRONLY, 0)
	}
	os.Stdout = devnull
	defer func() { os.Stdout = old }()
	f()
}

func run(input string) string {
	f := strings.Fields(input)
	op := f[0]
	mut := func(v, keep []types.ByteSequence, out string) string {
		if !sameSeq(v, keep) {
			return out + " INPUT-MUTATED"
		}
		return out
	}
	switch op {
	case "N", "Mb", "M", "C":
		hf := pickHash(f[1])
		v := parseElems(f[2:])
		keep := cloneSeq(v)
		var out string
		switch op {
		case "N":
			out = h.Hex(merkle_tree.N(v, hf))
		case "Mb":
			r := merkle_tree.Mb(v, hf)
			out = h.Hex(r[:])
		case "M":
			r := merkle_tree.M(v, hf)
			out = h.Hex(r[:])
		case "C":
			out = joinHashes(merkle_tree.C(v, hf))
		}
		return mut(v, keep, out)
	case "T":
		hf := pickHash(f[1])
		i := h.U(f[2])
		v := parseElems(f[3:])
		keep := cloneSeq(v)
		return mut(v, keep, joinSeq(merkle_tree.T(v, types.U32(i), hf)))
	case "Ps", "PI":
		i := h.U(f[1])
		v := parseElems(f[2:])
		keep := cloneSeq(v)
		if op == "Ps" {
			return mut(v, keep, joinSeq(merkle_tree.Ps(v, types.U32(i))))
		}
		return mut(v, keep, fmt.Sprint(merkle_tree.PI(v, types.U32(i))))
	case "Jx", "Lx":
		hf := pickHash(f[1])
		x := h.U(f[2])
		i := h.U(f[3])
		v := parseElems(f[4:])
		keep := cloneSeq(v)
		if op == "Jx" {
			return mut(v, keep, joinHashes(merkle_tree.Jx(types.U8(x), v, types.U32(i), hf)))
		}
		return mut(v, keep, joinHashes(merkle_tree.Lx(types.U8(x), v, types.U32(i), hf)))
	case "vfy":
		hf := pickHash(f[1])
		pi := h.U(f[2])
		ui := h.U(f[3])
		leaf := h.UnHex(f[4])
		v := parseElems(f[5:])
		keep := cloneSeq(v)
		root := merkle_tree.M(v, hf)
		proof := merkle_tree.Jx(0, v, types.U32(pi), hf)
		ok := false
		quiet(func() { ok = merkle_tree.VerifyMerkleProof(leaf, proof, int(ui), hf, root) })
		return mut(v, keep, fmt.Sprint(ok))
	case "Tall":
		hf := pickHash(f[1])
		v := parseElems(f[2:])
		keep := cloneSeq(v)
		parts := make([]string, len(v))
		for i := range v {
			parts[i] = joinSeq(merkle_tree.T(v, types.U32(i), hf))
		}
		return mut(v, keep, "T:"+strings.Join(parts, ";"))
	case "Jall":
		hf := pickHash(f[1])
		x := h.U(f[2])
		v := parseElems(f[3:])
		keep := cloneSeq(v)
		np := (len(v) + (1 << x) - 1) >> x
		parts := make([]string, np)
		for p := 0; p < np; p++ {
			parts[p] = joinHashes(merkle_tree.Jx(types.U8(x), v, types.U32(p), hf)) + "/" +
				joinHashes(merkle_tree.Lx(types.U8(x), v, types.U32(p), hf))
		}
		return mut(v, keep, "J:"+strings.Join(parts, ";"))
	case "Vall":
		hf := pickHash(f[1])
		v := parseElems(f[2:])
		keep := cloneSeq(v)
		root := merkle_tree.M(v, hf)
		var sb strings.Builder
		sb.WriteString("V:")
		quiet(func() {
			for i := range v {
				proof := merkle_tree.Jx(0, v, types.U32(i), hf)
				for _, idx := range []int{i, (i + 1) % len(v)} {
					if merkle_tree.VerifyMerkleProof(v[i], proof, idx, hf, root) {
						sb.WriteByte('t')
					} else {
						sb.WriteByte('f')
					}
				}
			}
		})
		return mut(v, keep, sb.String())
	case "Call":
		v := parseElems(f[1:])
		raw := make([][]byte, len(v))
		for k := range v {
			raw[k] = []byte(v[k])
		}
		keep := cloneSeq(v)
		parts := make([]string, 0, len(v)+1)
		for i := 0; i <= len(v); i++ {
			b, err := ce.VerifConstructMerkleCoPath(raw, uint16(i))
			if err != nil {
				parts = append(parts, "err")
			} else {
				parts = append(parts, h.Hex(b))
			}
		}
		return mut(v, keep, "P:"+strings.Join(parts, ";"))
	case "copath":
		i := h.U(f[1])
		v := parseElems(f[2:])
		raw := make([][]byte, len(v))
		for k := range v {
			raw[k] = []byte(v[k])
		}
		keep := cloneSeq(v)
		if i > 65535 {
			i = 65535
		}
		b, err := ce.VerifConstructMerkleCoPath(raw, uint16(i))
		if err != nil {
			return mut(v, keep, "err")
		}
		return mut(v, keep, h.Hex(b))
	case "paged":
		segs := make([]types.ExportSegment, len(f)-1)
		for k, t := range f[1:] {
			pat := h.UnHex(t)
			seg := make([]byte, types.SegmentSize)
			for j := range seg {
				seg[j] = pat[j%len(pat)]
			}
			segs[k] = types.ExportSegment(seg)
		}
		pages, err := work_package.PagedProofs(segs)
		if err != nil {
			return "err"
		}
		out := fmt.Sprint(len(pages))
		for _, p := range pages {
			b := []byte(p[:])
			n := len(b)
			for n > 0 && b[n-1] == 0 {
				n--
			}
			out += fmt.Sprintf(" %d:%s", len(b), h.Hex(b[:n]))
		}
		return out
	}
	panic("verifh: bad case " + input)
}

func main() { h.Main(gen, run) }
