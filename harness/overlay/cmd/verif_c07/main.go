//go:build verif

// C07 harness: host-call register, memory and error discipline. One case = one call of a REAL host-call
// function (PVM.AccumulateOmegas / RefineOmegas / IsAuthorizedOmegas entry, or hostCallException for an
// identifier without entry, selected as Host.HostCall selects it; a fourth stream goes through Host.HostCall
// itself on the program "ecalli imm; trap") with generated registers, guest memory map and context.
// output: <exit> R <13 registers> G <gas> M <changed memory bytes> P <page accesses intact> ga=<general-args view consistent>
//         X <regular context in full> Y <exceptional context in full>        (refine: E <exports>)
// Case grammar and generators: internal/verifacc/c07.go, c07gen.go.
package main

import (
	"os"
	"runtime/debug"
	"runtime/pprof"
	"strings"

	"github.com/New-JAMneration/JAM-Protocol/internal/verifacc"
	h "github.com/New-JAMneration/JAM-Protocol/internal/verifh"
)

func run(input string) string {
	if strings.HasPrefix(input, "h ") {
		return runInner(input) // stream (5): inner-machine calls, inner_c07.go
	}
	return verifacc.RunC07(strings.Fields(input))
}

func gen(rng *h.Rng, tier string, emit func(string)) {
	verifacc.GenC07(rng, tier, emit)
	genInner(rng, tier, emit)
}

func main() {
	if p := os.Getenv("VERIF_C07_PROF"); p != "" {
		f, _ := os.Create(p)
		pprof.StartCPUProfile(f)
		defer pprof.StopCPUProfile()
	}
	debug.SetGCPercent(1000) // many short-lived page buffers per case
	h.Main(gen, run)
}
