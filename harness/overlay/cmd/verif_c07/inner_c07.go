//go:build verif

// C07, stream (5): the six inner-machine host calls (machine, peek, poke, pages, invoke, expunge) one at a time.
// One case = a short set-up prefix (the machine map cannot be given directly: it is built by real machine / pages /
// poke calls and guest stores) followed by ONE tested call with boundary-biased registers; every call goes through the
// real entry of PVM.RefineOmegas. The case format and the rendering are those of the C33 harness
// (cmd/verif_c33, copied here so that this command builds on its own), with all 13 registers in every record -
// also after a panic or out-of-gas - so that the register clause of C07 is observed.
//
// case:   h <outer-pages> <gas> <op> ...        outer-pages = ';'-joined "idx:acc[:off=hex]*" (acc 0 inaccessible, 1 RO, 2 RW)
//	op = m,po,pz,i | k,n,o,s,z (peek) | p,n,s,o,z (poke) | g,n,p,c,r (pages) | v,n,o (invoke) | x,n (expunge) | w,addr,hex (guest store)
// output: per host call "<c|panic|oog> <13 registers> <gas> <outer RAM|=> <machines|=>" joined by " ; "
package main

import (
	"bytes"
	"fmt"
	"sort"
	"strconv"
	"strings"

	"github.com/New-JAMneration/JAM-Protocol/PVM"
	"github.com/New-JAMneration/JAM-Protocol/internal/types"
	h "github.com/New-JAMneration/JAM-Protocol/internal/verifh"
)

func encNat(x uint64) []byte {
	if x < 128 {
		return []byte{byte(x)}
	}
	for l := 1; l < 8; l++ {
		if x < uint64(1)<<(7*uint(l+1)) {
			b := []byte{byte(256 - (1 << (8 - uint(l))) + int(x>>(8*uint(l))))}
			for i := 0; i < l; i++ {
				b = append(b, byte(x>>(8*uint(i))))
			}
			return b
		}
	}
	b := []byte{0xFF}
	for i := 0; i < 8; i++ {
		b = append(b, byte(x>>(8*uint(i))))
	}
	return b
}

// mkBlob builds E(|j|) E_1(z) E(|c|) E_z(j) c k (Gray Paper A.2) with an empty jump table.
func mkBlob(code []byte, mask []bool) []byte {
	b := []byte{0, 0}
	b = append(b, encNat(uint64(len(code)))...)
	b = append(b, code...)
	kb := make([]byte, (len(code)+7)/8)
	for i, m := range mask {
		if m {
			kb[i/8] |= 1 << uint(i%8)
		}
	}
	return append(b, kb...)
}

type asm struct {
	code   []byte
	mask   []bool
	starts []int
}

func (a *asm) ins(bs ...byte) {
	a.starts = append(a.starts, len(a.code))
	for i, b := range bs {
		a.code = append(a.code, b)
		a.mask = append(a.mask, i == 0)
	}
}

var zeroChunk [64]byte

func fmtPage(idx uint32, acc int, val []byte) string {
	var sb strings.Builder
	fmt.Fprintf(&sb, "%d:%d", idx, acc)
	i := 0
	for {
		for i+64 <= len(val) && bytes.Equal(val[i:i+64], zeroChunk[:]) {
			i += 64
		}
		for i < len(val) && val[i] == 0 {
			i++
		}
		if i >= len(val) {
			break
		}
		j := i
		for j < len(val) && val[j] != 0 {
			j++
		}
		fmt.Fprintf(&sb, ":%d=%s", i, h.Hex(val[i:j]))
		i = j
	}
	return sb.String()
}

func dumpPages(m *PVM.Memory) string {
	if m == nil || len(m.Pages) == 0 {
		return "-"
	}
	idx := make([]uint32, 0, len(m.Pages))
	for k := range m.Pages {
		idx = append(idx, k)
	}
	sort.Slice(idx, func(i, j int) bool { return idx[i] < idx[j] })
	var parts []string
	for _, k := range idx {
		p := m.Pages[k]
		if p == nil {
			parts = append(parts, fmt.Sprintf("%d:nil", k))
			continue
		}
		s := fmtPage(k, int(p.Access), p.Value)
		if len(p.Value) != PVM.ZP {
			s += fmt.Sprintf(":len=%d", len(p.Value))
		}
		if p.Access == PVM.MemoryInaccessible && !strings.Contains(s[strings.Index(s, ":")+1:], ":") {
			continue // inaccessible and all zero = absent
		}
		parts = append(parts, s)
	}
	if len(parts) == 0 {
		return "-"
	}
	return strings.Join(parts, ";")
}

func dumpMachines(mm PVM.IntegratedPVMMap) string {
	if len(mm) == 0 {
		return "-"
	}
	ids := make([]uint64, 0, len(mm))
	for k := range mm {
		ids = append(ids, k)
	}
	sort.Slice(ids, func(i, j int) bool { return ids[i] < ids[j] })
	var parts []string
	for _, k := range ids {
		mc := mm[k]
		parts = append(parts, fmt.Sprintf("%d@%d@%d@%s", k, uint32(mc.PC), PVM.VerifC07Heap(&mc.Memory), dumpPages(&mc.Memory)))
	}
	return strings.Join(parts, "|")
}

func parseOuter(spec string) *PVM.Memory {
	mem := PVM.VerifC07NewMemory()
	if spec == "-" {
		return mem
	}
	for _, ps := range strings.Split(spec, ";") {
		f := strings.Split(ps, ":")
		val := make([]byte, PVM.ZP)
		for _, r := range f[2:] {
			kv := strings.SplitN(r, "=", 2)
			copy(val[h.I(kv[0]):], h.UnHex(kv[1]))
		}
		mem.Pages[uint32(h.U(f[0]))] = &PVM.Page{Value: val, Access: PVM.MemoryAccess(h.I(f[1]))}
	}
	return mem
}

// the refining service's own program: instruction starts at 0, 9, 18, ... (skip distances unlike any inner program)
var outerProgram = func() *PVM.Program {
	a := &asm{}
	for i := 0; i < 12; i++ {
		a.ins(51, 7, 1, 2, 3, 4, 0, 0, 0)
	}
	a.ins(0)
	p, ex := PVM.DeBlobProgramCode(mkBlob(a.code, a.mask))
	if ex != PVM.ExitContinue {
		panic("verifh: outer program does not deblob")
	}
	return &p
}()

var innerOp = map[string]PVM.OperationType{"m": PVM.MachineOp, "k": PVM.PeekOp, "p": PVM.PokeOp, "g": PVM.PagesOp,
	"v": PVM.InvokeOp, "x": PVM.ExpungeOp}

func fmtRegs(r *PVM.Registers) string {
	s := make([]string, 13)
	for i := range r {
		s[i] = strconv.FormatUint(r[i], 10)
	}
	return strings.Join(s, ",")
}

func runInner(input string) string {
	t := strings.Fields(input)
	if len(t) < 3 || t[0] != "h" {
		return "BADCASE"
	}
	mem := parseOuter(t[1])
	gasv, err := strconv.ParseInt(t[2], 10, 64)
	if err != nil {
		return "BADCASE"
	}
	gas := PVM.Gas(gasv)
	var regs PVM.Registers
	for i := range regs {
		regs[i] = uint64(i+1) * 0x0101010101010101
	}
	sid := types.ServiceID(7)
	core := types.CoreIndex(0)
	accounts := types.ServiceAccountState{}
	add := PVM.HostCallArgs{
		GeneralArgs: PVM.GeneralArgs{ServiceID: &sid, ServiceAccountState: &accounts, CoreID: &core},
		RefineArgs:  PVM.RefineArgs{IntegratedPVMMap: PVM.IntegratedPVMMap{}, ExportSegment: []types.ExportSegment{}},
		Program:     outerProgram,
	}
	var recs []string
	prevO, prevM := dumpPages(mem), "-"
	delta := func(cur string, prev *string) string {
		if cur == *prev {
			return "="
		}
		*prev = cur
		return cur
	}
	for _, op := range t[3:] {
		f := strings.Split(op, ",")
		if f[0] == "w" {
			addr := h.U(f[1])
			for i, b := range h.UnHex(f[2]) {
				a := addr + uint64(i)
				if pg, ok := mem.Pages[uint32(a/PVM.ZP)]; ok {
					pg.Value[a%PVM.ZP] = b
				}
			}
			prevO = dumpPages(mem)
			continue
		}
		opc, ok := innerOp[f[0]]
		if !ok {
			return "BADCASE"
		}
		for i, a := range f[1:] {
			regs[7+i] = h.U(a)
		}
		stop := false
		rec := h.Guard(func() string {
			out := PVM.VerifC07Omega(PVM.RefineOmegas, opc, gas)(PVM.OmegaInput{
				Operation: opc,
				VM:        &PVM.VMState{Registers: &regs, Memory: mem, Gas: &gas},
				Addition:  add,
				HostCalls: PVM.RefineOmegas,
			})
			kind := ""
			switch out.ExitReason.GetReasonType() {
			case PVM.CONTINUE:
				add = out.Addition
				kind = "c"
			case PVM.PANIC:
				stop = true
				kind = "panic"
			case PVM.OUT_OF_GAS:
				stop = true
				kind = "oog"
			default:
				stop = true
				return fmt.Sprintf("exit:%d", uint64(out.ExitReason))
			}
			return fmt.Sprintf("%s %s %d %s %s", kind, fmtRegs(&regs), int64(gas), delta(dumpPages(mem), &prevO),
				delta(dumpMachines(out.Addition.IntegratedPVMMap), &prevM))
		})
		recs = append(recs, rec)
		if stop || strings.HasPrefix(rec, "GOPANIC") {
			break
		}
	}
	if len(recs) == 0 {
		return "-"
	}
	return strings.Join(recs, " ; ")
}

// ---------------------------------------------------------------------------------------------
// generator

func le(v uint64, n int) []byte {
	b := make([]byte, n)
	for i := range b {
		b[i] = byte(v >> (8 * uint(i)))
	}
	return b
}

type innerProg struct {
	blob   []byte
	starts []int
	clen   int
}

// inner programs without memory accesses (no page faults: their reported address is C33's business)
func innerProgram(r *h.Rng) innerProg {
	a := &asm{}
	switch r.Intn(6) {
	case 0: // load_imm r1, v ; ecalli k ; trap
		a.ins(append([]byte{51, 1}, le(r.U64(), 1+r.Intn(4))...)...)
		a.ins(10, byte(r.Intn(128)))
		a.ins(0)
	case 1:
		a.ins(0) // trap
	case 2: // jump to itself: runs out of gas
		a.ins(40, 0)
	case 3: // counting loop, then ecalli
		a.ins(149, 1|1<<4, 1)                       // add_imm_64 r1 = r1 + 1
		a.ins(82, 1|1<<4, byte(1+r.Intn(40)), 0xfd) // branch_ne_imm r1, N, -3
		a.ins(10, byte(r.Intn(128)))
		a.ins(0)
	case 4: // halt: jump_ind through r with r = 2^32 - 2^16
		reg := byte(r.Intn(7))
		a.ins(51, reg, 0x00, 0x00, 0xff, 0xff)
		a.ins(50, reg)
	default: // fallthrough, then past the end: implicit trap
		a.ins(1)
	}
	return innerProg{blob: mkBlob(a.code, a.mask), starts: a.starts, clen: len(a.code)}
}

const (
	clusterBase = 16 // outer pages 16..19: the windows and buffers of the tested call
	setupPage   = 64 // outer page 64, always read-write: the program blob and set-up data
)

type innerGen struct {
	r     *h.Rng
	acc   [4]int // access of the cluster pages: -1 absent, 0 inaccessible, 1 RO, 2 RW
	ops   []string
	st    h.Stats
	live  bool
	inner bool // inner pages 16, 17 opened
}

func (g *innerGen) op(s string, a ...uint64) {
	p := []string{s}
	for _, x := range a {
		p = append(p, strconv.FormatUint(x, 10))
	}
	g.ops = append(g.ops, strings.Join(p, ","))
}
func (g *innerGen) store(addr uint64, b []byte) {
	if len(b) > 0 {
		g.ops = append(g.ops, fmt.Sprintf("w,%d,%s", addr, h.Hex(b)))
	}
}

// ptr: the start of an n-byte range in or around the cluster
func (g *innerGen) ptr(n uint64) uint64 {
	r := g.r
	switch r.Intn(20) {
	case 0:
		return []uint64{0, 4095, 15 * 4096, 16*4096 - 1}[r.Intn(4)]
	case 1:
		return []uint64{1 << 32, 1<<32 - 1, ^uint64(0), 1 << 63, 20 * 4096, 20*4096 - 1}[r.Intn(6)]
	case 2:
		if n <= 1<<32 {
			return 1<<32 - n + uint64(r.Intn(2))
		}
	}
	start := uint64(clusterBase+r.Intn(4)) * 4096
	if n == 0 || n > 4096 {
		return start + uint64(r.Intn(4096))
	}
	switch r.Intn(5) {
	case 0:
		return start + 4096 - n
	case 1:
		return start + 4096 - n + 1 + uint64(r.Intn(int(n)))
	case 2:
		return start
	}
	return start + uint64(r.Intn(int(4096-n+1)))
}

func (g *innerGen) machineID() uint64 {
	r := g.r
	switch r.Intn(8) {
	case 0:
		return 1 + uint64(r.Intn(3)) // never created
	case 1:
		return []uint64{1 << 32, ^uint64(0), 1 << 63, r.U64()}[r.Intn(4)]
	}
	return 0
}

func (g *innerGen) innerAddr() uint64 {
	r := g.r
	switch r.Intn(8) {
	case 0:
		return uint64(r.Intn(16)) * 4096
	case 1:
		return 18*4096 - uint64(1+r.Intn(8)) // runs off the opened pages
	case 2:
		return 17*4096 - uint64(1+r.Intn(8)) // straddles 16/17
	case 3:
		return []uint64{1 << 32, 1<<32 - 4, ^uint64(0), 18 * 4096}[r.Intn(4)]
	}
	return 16*4096 + uint64(r.Intn(8192-64))
}

func (g *innerGen) length() uint64 {
	r := g.r
	switch r.Intn(10) {
	case 0:
		return 0
	case 1:
		return []uint64{4096, 4097, 8192, 1 << 32, 1<<32 + 1, ^uint64(0)}[r.Intn(6)]
	case 2:
		return uint64(1 + r.Intn(300))
	}
	return uint64(1 + r.Intn(24))
}

func genInnerCase(r *h.Rng, st h.Stats) string {
	g := &innerGen{r: r, st: st}
	var pages []string
	allRW := r.Chance(1, 3)
	for i := 0; i < 4; i++ {
		acc := 2
		if !allRW {
			acc = []int{2, 2, 2, 1, 1, 0, -1, -1}[r.Intn(8)]
		}
		g.acc[i] = acc
		if acc >= 0 {
			pages = append(pages, fmt.Sprintf("%d:%d:%d=%s", clusterBase+i, acc, 8*r.Intn(400), h.Hex(r.Bytes(8))))
		}
	}
	pages = append(pages, fmt.Sprintf("%d:2", setupPage))
	gas := int64(1000 + r.Intn(1000))
	if r.Chance(1, 25) {
		gas = int64(r.Intn(60)) // the outer gas runs out during the prefix or at the tested call
	}
	// prefix: usually one machine (id 0), often two opened inner pages with some bytes poked in
	prog := innerProgram(r)
	setup := uint64(setupPage) * 4096
	if r.Chance(9, 10) {
		g.store(setup, prog.blob)
		entry := uint64(0)
		switch r.Intn(5) {
		case 0:
			entry = uint64(prog.starts[r.Intn(len(prog.starts))])
		case 1:
			entry = uint64(prog.clen + r.Intn(3)) // at / past the end: implicit trap
		}
		g.op("m", setup, uint64(len(prog.blob)), entry)
		g.live = true
		if r.Chance(2, 3) {
			g.op("g", 0, 16, 2, uint64(1+r.Intn(2))) // inner pages 16, 17 read-only or read-write
			g.inner = true
			if r.Chance(1, 2) {
				g.op("g", 0, 16, 2, 2)
				data := r.Bytes(1 + r.Intn(40))
				g.store(setup+512, data)
				g.op("p", 0, setup+512, 16*4096+uint64(r.Intn(8000)), uint64(len(data)))
				if r.Chance(1, 3) {
					g.op("g", 0, 16, 1, 3) // page 16 read-only again, contents kept
				}
			}
		}
	}
	// the tested call
	call := []string{"m", "k", "k", "p", "p", "g", "g", "v", "v", "v", "v", "x"}[r.Intn(12)]
	switch call {
	case "m":
		b := innerProgram(r).blob
		switch r.Intn(5) {
		case 0:
			b = r.Bytes(r.Intn(12)) // most likely not a program
		case 1:
			b = b[:len(b)-1] // truncated
		}
		po := g.ptr(uint64(len(b)))
		g.store(po, b)
		pz := uint64(len(b))
		if r.Chance(1, 8) {
			pz = g.length()
		}
		g.op("m", po, pz, uint64(r.Intn(4)))
	case "k":
		z := g.length()
		g.op("k", g.machineID(), g.ptr(z), g.innerAddr(), z)
	case "p":
		z := g.length()
		src := g.ptr(z)
		if z <= 300 {
			g.store(src, r.Bytes(int(z)))
		}
		g.op("p", g.machineID(), src, g.innerAddr(), z)
	case "g":
		p := []uint64{15, 16, 16, 17, 18, 1<<20 - 1, 1<<20 - 2, 1 << 20, uint64(r.Intn(64))}[r.Intn(9)]
		c := []uint64{0, 1, 1, 2, 3, 1 << 20, ^uint64(0), ^uint64(0) - 14}[r.Intn(8)]
		if p+c >= 1<<20 && p+c < 1<<21 && c > 8 { // never a legal request of a million pages
			c = 1
		}
		md := []uint64{0, 1, 2, 3, 4, 5, 7, 1 << 32, r.U64()}[r.Intn(9)]
		g.op("g", g.machineID(), p, c, md)
	case "v":
		o := g.ptr(112)
		win := le([]uint64{0, 1, 3, 5, 50, 100, 5000}[r.Intn(7)], 8)
		for i := 0; i < 13; i++ {
			win = append(win, le(r.U64()>>uint(r.Intn(64)), 8)...)
		}
		g.store(o, win)
		g.op("v", g.machineID(), o)
	case "x":
		g.op("x", g.machineID())
	}
	st.Inc("inner-call-" + call)
	return fmt.Sprintf("h %s %d %s", strings.Join(pages, ";"), gas, strings.Join(g.ops, " "))
}

func genInner(rng *h.Rng, tier string, emit func(string)) {
	st := h.Stats{}
	n := 1800
	if tier == "thorough" {
		n *= 10
	}
	for i := 0; i < n; i++ {
		line := genInnerCase(rng.Fork(), st)
		emit(line)
		// outcome of the tested (last) call on the implementation, for the distribution statistics
		out := h.Guard(func() string { return runInner(line) })
		recs := strings.Split(out, " ; ")
		last := strings.Fields(recs[len(recs)-1])
		ops := strings.Fields(line)
		nCalls := 0
		for _, o := range ops[3:] {
			if !strings.HasPrefix(o, "w,") {
				nCalls++
			}
		}
		cls := "prefix-ended"
		if len(recs) == nCalls && len(last) > 1 {
			cls = last[0]
			if cls == "c" {
				switch w7 := strings.Split(last[1], ",")[7]; w7 {
				case "18446744073709551612":
					cls = "who"
				case "18446744073709551613":
					cls = "oob"
				case "18446744073709551607":
					cls = "huh"
				default:
					cls = "value"
				}
			}
		}
		st.Inc("inner-" + ops[len(ops)-1][:1] + "-" + cls)
	}
	h.EmitStats(emit, st)
}
