//go:build verif

// C34 harness: activity statistics over block histories, through the blockchain singleton and stf.UpdateStatistics
// (statistics.UpdateValidatorActivityStatistics -> UpdateCurrentStatistics / UpdateCoreActivityStatistics /
// UpdateServiceActivityStatistics), tiny constants V=6 C=2 E=12 R=4.
//
// one case = one history:
//
//	<t0> <nblocks> then per block
//	B <slot> <author> <ntickets>
//	P <np> {<requester>:<size>}*np
//	G <ng> { <core> <bundlelen> <exports> <gslot> <signers a,b | -> <nd> {<svc>:<u>:<i>:<x>:<z>:<e>}*nd }*ng
//	A <na> {<validator>:<bits, one 0/1 char per core>}*na
//	W <nw> {<core>:<bundlelen>:<exports>}*nw
//	S <ns> {<svc>:<gas>:<count>}*ns
//	K <kappa' key ids, comma separated>  L <lambda' key ids>  O <offender key ids | ->
//
// prior statistics of the first block: V zero records in both validator lists; prior tau = t0.
// After every block the posterior pi becomes the next prior (sharing slices, as StateCommit does).
//
// output: per block  "C <b.t.p.d.g.a>*V L <...>*V K <d.p.i.x.z.e.b.u>*C S <svc=pc.ps.rn.ru.i.x.z.e.an.au>*  (services ascending)"
// joined by " / ".
package main

import (
	"encoding/binary"
	"fmt"
	"os"
	"sort"
	"strconv"
	"strings"

	"github.com/New-JAMneration/JAM-Protocol/internal/blockchain"
	"github.com/New-JAMneration/JAM-Protocol/internal/stf"
	"github.com/New-JAMneration/JAM-Protocol/internal/types"
	h "github.com/New-JAMneration/JAM-Protocol/internal/verifh"
	"github.com/New-JAMneration/JAM-Protocol/logger"
)

const (
	V = 6
	C = 2
	E = 12
	R = 4
)

func edKey(id uint64) (k types.Ed25519Public) {
	if id == 0 {
		return k
	}
	binary.LittleEndian.PutUint64(k[:8], id)
	for i := 8; i < 32; i++ {
		k[i] = byte(id*13 + uint64(i))
	}
	return k
}

type reader struct {
	f []string
	i int
}

func (r *reader) next() string {
	if r.i >= len(r.f) {
		panic("verifh: truncated case")
	}
	s := r.f[r.i]
	r.i++
	return s
}
func (r *reader) expect(s string) {
	if t := r.next(); t != s {
		panic("verifh: expected " + s + " got " + t)
	}
}
func ids(tok string) []uint64 {
	if tok == "-" {
		return nil
	}
	out := []uint64{}
	for _, s := range strings.Split(tok, ",") {
		out = append(out, h.U(s))
	}
	return out
}
func colon(tok string) []uint64 {
	out := []uint64{}
	for _, s := range strings.Split(tok, ":") {
		out = append(out, h.U(s))
	}
	return out
}
func validators(l []uint64) types.ValidatorsData {
	out := make(types.ValidatorsData, len(l))
	for i, id := range l {
		out[i].Ed25519 = edKey(id)
		out[i].Bandersnatch[0] = byte(id)
	}
	return out
}

func vrecs(l types.ValidatorsStatistics) string {
	s := make([]string, len(l))
	for i, r := range l {
		s[i] = fmt.Sprintf("%d.%d.%d.%d.%d.%d", r.Blocks, r.Tickets, r.PreImages, r.PreImagesSize, r.Guarantees, r.Assurances)
	}
	if len(s) == 0 {
		return "-"
	}
	return strings.Join(s, " ")
}

func dumpPi(p types.Statistics) string {
	cs := make([]string, len(p.Cores))
	for i, c := range p.Cores {
		cs[i] = fmt.Sprintf("%d.%d.%d.%d.%d.%d.%d.%d", c.DALoad, c.Popularity, c.Imports, c.ExtrinsicCount, c.ExtrinsicSize, c.Exports, c.BundleSize, c.GasUsed)
	}
	sids := []uint64{}
	for id := range p.Services {
		sids = append(sids, uint64(id))
	}
	sort.Slice(sids, func(i, j int) bool { return sids[i] < sids[j] })
	ss := make([]string, len(sids))
	for i, id := range sids {
		s := p.Services[types.ServiceID(id)]
		ss[i] = fmt.Sprintf("%d=%d.%d.%d.%d.%d.%d.%d.%d.%d.%d", id, s.ProvidedCount, s.ProvidedSize, s.RefinementCount, s.RefinementGasUsed,
			s.Imports, s.ExtrinsicCount, s.ExtrinsicSize, s.Exports, s.AccumulateCount, s.AccumulateGasUsed)
	}
	svc := "-"
	if len(ss) > 0 {
		svc = strings.Join(ss, " ")
	}
	core := "-"
	if len(cs) > 0 {
		core = strings.Join(cs, " ")
	}
	return fmt.Sprintf("C %s L %s K %s S %s", vrecs(p.ValsCurr), vrecs(p.ValsLast), core, svc)
}

func run(input string) string {
	r := &reader{f: strings.Fields(input)}
	t0 := types.TimeSlot(h.U(r.next()))
	nb := h.I(r.next())
	blockchain.ResetInstance()
	cs := blockchain.GetInstance()
	cs.GetPriorStates().SetTau(t0)
	cs.GetPriorStates().SetPi(types.Statistics{ValsCurr: make(types.ValidatorsStatistics, V), ValsLast: make(types.ValidatorsStatistics, V)})
	outs := []string{}
	for bi := 0; bi < nb; bi++ {
		r.expect("B")
		slot := types.TimeSlot(h.U(r.next()))
		author := types.ValidatorIndex(h.U(r.next()))
		nt := h.I(r.next())
		ext := types.Extrinsic{}
		for i := 0; i < nt; i++ {
			ext.Tickets = append(ext.Tickets, types.TicketEnvelope{Attempt: types.TicketAttempt(i % 3)})
		}
		r.expect("P")
		for i, n := 0, h.I(r.next()); i < n; i++ {
			f := colon(r.next())
			blob := make([]byte, f[1])
			for j := range blob {
				blob[j] = byte(j + i)
			}
			ext.Preimages = append(ext.Preimages, types.Preimage{Requester: types.ServiceID(f[0]), Blob: blob})
		}
		r.expect("G")
		present := []types.WorkReport{}
		for i, n := 0, h.I(r.next()); i < n; i++ {
			rep := types.WorkReport{}
			rep.CoreIndex = types.CoreIndex(h.U(r.next()))
			rep.PackageSpec.Length = types.U32(h.U(r.next()))
			rep.PackageSpec.ExportsCount = types.U16(h.U(r.next()))
			g := types.ReportGuarantee{Slot: types.TimeSlot(h.U(r.next()))}
			for _, s := range ids(r.next()) {
				g.Signatures = append(g.Signatures, types.ValidatorSignature{ValidatorIndex: types.ValidatorIndex(s)})
			}
			for j, nd := 0, h.I(r.next()); j < nd; j++ {
				f := colon(r.next())
				rep.Results = append(rep.Results, types.WorkResult{ServiceID: types.ServiceID(f[0]),
					Result: types.WorkExecResult{Type: types.WorkExecResultOk},
					RefineLoad: types.RefineLoad{GasUsed: types.Gas(f[1]), Imports: types.U16(f[2]), ExtrinsicCount: types.U16(f[3]),
						ExtrinsicSize: types.U32(f[4]), Exports: types.U16(f[5])}})
			}
			g.Report = rep
			ext.Guarantees = append(ext.Guarantees, g)
			present = append(present, rep)
		}
		r.expect("A")
		for i, n := 0, h.I(r.next()); i < n; i++ {
			p := strings.Split(r.next(), ":")
			bf := make(types.Bitfield, len(p[1]))
			for j := range bf {
				bf[j] = p[1][j] - '0'
			}
			ext.Assurances = append(ext.Assurances, types.AvailAssurance{ValidatorIndex: types.ValidatorIndex(h.U(p[0])), Bitfield: bf})
		}
		r.expect("W")
		avail := []types.WorkReport{}
		for i, n := 0, h.I(r.next()); i < n; i++ {
			f := colon(r.next())
			w := types.WorkReport{CoreIndex: types.CoreIndex(f[0])}
			w.PackageSpec.Length = types.U32(f[1])
			w.PackageSpec.ExportsCount = types.U16(f[2])
			avail = append(avail, w)
		}
		r.expect("S")
		acc := types.AccumulationStatistics{}
		for i, n := 0, h.I(r.next()); i < n; i++ {
			f := colon(r.next())
			acc[types.ServiceID(f[0])] = types.GasAndNumAccumulatedReports{Gas: types.Gas(f[1]), NumAccumulatedReports: types.U64(f[2])}
		}
		r.expect("K")
		kappa := validators(ids(r.next()))
		r.expect("L")
		lambda := validators(ids(r.next()))
		r.expect("O")
		off := []types.Ed25519Public{}
		for _, id := range ids(r.next()) {
			off = append(off, edKey(id))
		}

		post := cs.GetPosteriorStates()
		post.SetTau(slot)
		post.SetKappa(kappa)
		post.SetLambda(lambda)
		post.SetPsiO(off)
		im := cs.GetIntermediateStates()
		im.SetPresentWorkReports(present)
		im.SetAvailableWorkReports(avail)
		im.SetAccumulationStatistics(acc)
		cs.AddBlock(types.Block{Header: types.Header{Slot: slot, AuthorIndex: author}, Extrinsic: ext})

		if err := stf.UpdateStatistics(); err != nil {
			return strings.Join(append(outs, "err"), " / ")
		}
		pi := post.GetPi()
		outs = append(outs, dumpPi(pi))
		// commit: posterior becomes prior (slices shared, as ChainState.StateCommit does)
		cs.GetPriorStates().SetTau(slot)
		cs.GetPriorStates().SetPi(pi)
		post.SetPi(types.Statistics{})
	}
	return strings.Join(outs, " / ")
}

// ------------------------------------------------------------------------------------------------ gen
func joinU(l []uint64, sep string) string {
	if len(l) == 0 {
		return "-"
	}
	s := make([]string, len(l))
	for i, v := range l {
		s[i] = strconv.FormatUint(v, 10)
	}
	return strings.Join(s, sep)
}

func perm(rng *h.Rng, n int) []int {
	p := make([]int, n)
	for i := range p {
		p[i] = i
	}
	for i := n - 1; i > 0; i-- {
		j := rng.Intn(i + 1)
		p[i], p[j] = p[j], p[i]
	}
	return p
}

func gen(rng *h.Rng, tier string, emit func(string)) {
	st := h.Stats{}
	nh := 5000
	if tier == "thorough" {
		nh = 40000
	}
	svcPool := []uint64{0, 1, 7, 8, 65536, 4294967295}
	for hi := 0; hi < nh; hi++ {
		r := rng.Fork()
		nb := 1 + r.Intn(10)
		tau := uint64(r.Intn(40))
		if r.Chance(1, 10) {
			tau = 4294967295 - uint64(400+r.Intn(200))
		}
		var b strings.Builder
		fmt.Fprintf(&b, "%d %d", tau, nb)
		// validator key sets: kappa' and lambda' change only at epoch changes
		nextID := uint64(1)
		fresh := func() []uint64 {
			l := make([]uint64, V)
			for i := range l {
				l[i] = nextID
				nextID++
			}
			return l
		}
		kappa, lambda := fresh(), fresh()
		if r.Bool() { // some validators carried over from lambda' to kappa' at other positions
			p := perm(r, V)
			for i := 0; i < 1+r.Intn(3); i++ {
				kappa[p[i]] = lambda[p[(i+1)%V]]
			}
		}
		for bi := 0; bi < nb; bi++ {
			prev := tau
			steps := []uint64{1, 1, 1, 1, 2, 3, 4, 5, 11, 12, 13, 30}
			tau += steps[r.Intn(len(steps))]
			if tau/E != prev/E {
				st.Inc("block-epoch-change")
				// epoch rotation: lambda' := kappa', kappa' := mostly new keys
				lambda = kappa
				kappa = fresh()
				if r.Bool() {
					p := perm(r, V)
					for i := 0; i < 1+r.Intn(3); i++ {
						kappa[p[i]] = lambda[p[(i+1)%V]]
					}
				}
			} else {
				st.Inc("block-same-epoch")
			}
			// offenders: some keys of kappa'/lambda'
			offSet := map[uint64]bool{}
			if r.Chance(1, 4) {
				for i := 0; i < 1+r.Intn(2); i++ {
					if r.Bool() {
						offSet[kappa[r.Intn(V)]] = true
					} else {
						offSet[lambda[r.Intn(V)]] = true
					}
				}
			}
			off := []uint64{}
			for k := range offSet {
				off = append(off, k)
			}
			sort.Slice(off, func(i, j int) bool { return off[i] < off[j] })
			fmt.Fprintf(&b, " B %d %d %d", tau, r.Intn(V), r.Intn(4))
			// preimages
			np := r.Intn(4)
			if r.Chance(1, 3) {
				np = 0
			}
			fmt.Fprintf(&b, " P %d", np)
			for i := 0; i < np; i++ {
				sz := r.Intn(60)
				if r.Chance(1, 5) {
					sz = r.Intn(5000)
				}
				fmt.Fprintf(&b, " %d:%d", svcPool[r.Intn(len(svcPool))], sz)
			}
			st.Inc(fmt.Sprintf("block-preimages-%d", np))
			// guarantees: distinct cores
			ng := r.Intn(C + 1)
			cores := perm(r, C)
			fmt.Fprintf(&b, " G %d", ng)
			for i := 0; i < ng; i++ {
				// slot of the guarantee: this rotation or the previous one
				gslot := tau
				sameRot := r.Chance(2, 3) || tau < R
				if sameRot {
					gslot = tau - uint64(r.Intn(int(tau%R)+1))
				} else {
					gslot = (tau/R)*R - 1 - uint64(r.Intn(R))
					st.Inc("guarantee-previous-rotation")
				}
				// which key list applies
				keys := kappa
				if !sameRot && (tau-R)/E != tau/E {
					keys = lambda
					st.Inc("guarantee-lambda-keys")
				}
				sp := perm(r, V)
				signers := []uint64{}
				for _, s := range sp {
					if len(signers) < 2+r.Intn(2) && !offSet[keys[s]] {
						signers = append(signers, uint64(s))
					}
				}
				sort.Slice(signers, func(a, c int) bool { return signers[a] < signers[c] })
				nd := 1 + r.Intn(4)
				fmt.Fprintf(&b, " %d %d %d %d %s %d", cores[i], r.Intn(1<<22), r.Intn(3073), gslot, joinU(signers, ","), nd)
				for j := 0; j < nd; j++ {
					fmt.Fprintf(&b, " %d:%d:%d:%d:%d:%d", svcPool[r.Intn(len(svcPool))], r.U64()>>uint(24+r.Intn(40)), r.Intn(3073), r.Intn(129),
						r.Intn(1<<24), r.Intn(3073))
				}
			}
			st.Inc(fmt.Sprintf("block-guarantees-%d", ng))
			// assurances: distinct validators
			na := r.Intn(V + 1)
			ap := perm(r, V)[:na]
			sort.Ints(ap)
			fmt.Fprintf(&b, " A %d", na)
			for _, v := range ap {
				bits := ""
				for c := 0; c < C; c++ {
					bits += strconv.Itoa(r.Intn(2))
				}
				fmt.Fprintf(&b, " %d:%s", v, bits)
			}
			// newly available reports: distinct cores
			nw := r.Intn(C + 1)
			wc := perm(r, C)
			fmt.Fprintf(&b, " W %d", nw)
			for i := 0; i < nw; i++ {
				fmt.Fprintf(&b, " %d:%d:%d", wc[i], r.Intn(1<<22), r.Intn(3073))
			}
			// accumulation statistics: distinct services
			ns := r.Intn(4)
			sp := perm(r, len(svcPool))
			fmt.Fprintf(&b, " S %d", ns)
			for i := 0; i < ns; i++ {
				fmt.Fprintf(&b, " %d:%d:%d", svcPool[sp[i]], r.U64()>>uint(14+r.Intn(50)), r.Intn(1<<20))
			}
			fmt.Fprintf(&b, " K %s L %s O %s", joinU(kappa, ","), joinU(lambda, ","), joinU(off, ","))
			st.Inc("blocks")
		}
		emit(b.String())
		st.Inc("histories")
	}
	h.EmitStats(emit, st)
}

func main() {
	os.Setenv("JAM_FUZZ", "1")
	logger.Disable()
	types.SetTinyMode()
	h.Main(gen, run)
}
