//go:build verif

// C26 harness: block import is atomic and repeatable (metamorphic check).
//
// input  :  hist <seed> <nops> <anc> <tix>            random history
//
//	          script <seed> <a1,a2,...> <anc> <tix>     scripted history (corpus witnesses); actions:
//	                set<v> child child+<n> fork oldfork bad:<kind> badold:<kind> retry again reimport:<k> get get:<k>  (<action>*<n> repeats)
//
//		seed  : every random choice of the history derives from it (splitmix64)
//		nops  : number of generated operations (before the closing re-reads)
//		anc   : 1 = SetState is given a non-empty ancestry list (enables the node's ancestry tracking)
//		tix   : 1 = valid blocks may carry ticket extrinsics (ticket-sealed epochs become reachable) and assurances
//
// The history is generated while it is executed on node A (which sees every operation) because a
// valid block can only be authored from the parent's posterior state: blocks are sealed through the
// deterministic VRF stand-in with validator secrets the harness owns. The SAME operations (same block
// bytes) are then replayed after a full reset (every history starts with SetState) on
//
//	B1 : every import that node A refused is removed
//	B2 : a random subset of the refused imports is removed
//	B3 : exactly one refused import is removed
//	A2 : nothing removed (same sequence again)
//	X  : nothing removed, generated and executed again in a freshly exec'ed process (a quarter of the cases)
//
// output :  A m=- <op>=<result> ... # B1 m=<mask> <op>=<result> ... # B2 ... # A2 ... [# X ...]
//
//	mask   : one digit per operation of A, 1 = deleted in this run
//	op     : S.g<variant>.h<id>.t<slot>.a<0|1>        SetState of a genesis variant (header hash id, slot, ancestry given)
//	         I.b<id>.h<id>.p<id>.t<slot>.<label>      ImportBlock of block b (header hash h, parent hash p); label = how it was
//	                                                  made (+E epoch change, +W tickets mark, +T ticket-sealed, +x tickets, +a assurances)
//	         G.h<id>                                  GetState(hash)
//	result : ok:<root>:<dig>             import/SetState accepted: returned state root, digest of GetState(hash) key-values
//	                                     (":badkvroot" appended if the Merkle root recomputed from those key-values differs)
//	         no:<kind>                   import refused with an error message (sanitised text; refused_ancestry / refused_noparent
//	                                     for the node's own admission policy) — the node continues
//	         fatal:<kind>                "STF runtime error" (the fuzz server closes the connection)
//	         GOPANIC:<kind>              Go runtime panic inside the call
//	         kv:<dig>:<root>             GetState: digest of key-values and the Merkle root recomputed from them
//	         none                        GetState: unknown hash
//
// The OCaml driver replays the operations on the extracted Coq node model (Model/Node.v) whose STF is the
// accept/reject/post-state table observed on node A, and prints the transcript the theorems prescribe.
package main

import (
	"bytes"
	"crypto/ed25519"
	"fmt"
	"os"
	"os/exec"
	"runtime/debug"
	"runtime/pprof"
	"sort"
	"strings"

	"github.com/New-JAMneration/JAM-Protocol/internal/fuzz"
	"github.com/New-JAMneration/JAM-Protocol/internal/safrole"
	"github.com/New-JAMneration/JAM-Protocol/internal/types"
	"github.com/New-JAMneration/JAM-Protocol/internal/utilities"
	"github.com/New-JAMneration/JAM-Protocol/internal/utilities/hash"
	m "github.com/New-JAMneration/JAM-Protocol/internal/utilities/merklization"
	h "github.com/New-JAMneration/JAM-Protocol/internal/verifh"
	"github.com/New-JAMneration/JAM-Protocol/logger"
	vrf "github.com/New-JAMneration/JAM-Protocol/pkg/Rust-VRF/vrf-func-ffi/src"
	"golang.org/x/crypto/blake2b"
)

// ------------------------------------------------------------------------------------------------
// validators with secrets the harness knows

const poolSize = 24

type valKey struct {
	v    types.Validator
	bsk  []byte
	edsk ed25519.PrivateKey
}

var pool []valKey
var byBander = map[types.BandersnatchPublic]*valKey{}

func initPool() {
	pool = make([]valKey, poolSize)
	for i := range pool {
		sk := blake2b.Sum256([]byte(fmt.Sprintf("verif-c26-bandersnatch-%d", i)))
		pk, _ := vrf.GetPublicKeyFromSecret(sk[:])
		seed := blake2b.Sum256([]byte(fmt.Sprintf("verif-c26-ed25519-%d", i)))
		edsk := ed25519.NewKeyFromSeed(seed[:])
		var v types.Validator
		copy(v.Bandersnatch[:], pk)
		copy(v.Ed25519[:], edsk.Public().(ed25519.PublicKey))
		v.Metadata[0] = byte(i)
		pool[i] = valKey{v: v, bsk: sk[:], edsk: edsk}
	}
	for i := range pool {
		byBander[pool[i].v.Bandersnatch] = &pool[i]
	}
}

func valSet(off int) types.ValidatorsData {
	out := make(types.ValidatorsData, types.ValidatorsCount)
	for i := range out {
		out[i] = pool[(off+i)%poolSize].v
	}
	return out
}

// genesis variants: different slot position inside the epoch, entropy, validator rotation
func genesisState(variant int) (types.State, types.Header) {
	V := types.ValidatorsCount
	st := types.State{}
	st.Alpha = make(types.AuthPools, types.CoresCount)
	st.Varphi = make(types.AuthQueues, types.CoresCount)
	for c := range st.Varphi {
		st.Varphi[c] = make(types.AuthQueue, types.AuthQueueSize)
	}
	st.Kappa = valSet(variant * 3)
	st.Lambda = valSet(variant*3 + 18)
	st.Gamma.GammaK = valSet(variant*3 + 6)
	st.Iota = valSet(variant*3 + 12)
	for i := range st.Eta {
		st.Eta[i] = types.Entropy(blake2b.Sum256([]byte{byte(i), byte(variant), 77}))
	}
	st.Gamma.GammaS.Keys = safrole.FallbackKeySequence(st.Eta[2], st.Kappa)
	if z, err := safrole.UpdateBandersnatchKeyRoot(st.Gamma.GammaK); err == nil {
		st.Gamma.GammaZ = z
	}
	st.Rho = make(types.AvailabilityAssignments, types.CoresCount)
	st.Tau = types.TimeSlot([]int{0, 5, 11, 100, 8, 23}[variant%6])
	st.Chi.Assign = make(types.ServiceIDList, types.CoresCount)
	st.Pi.ValsCurr = make(types.ValidatorsStatistics, V)
	st.Pi.ValsLast = make(types.ValidatorsStatistics, V)
	st.Pi.Cores = make(types.CoresStatistics, types.CoresCount)
	st.Pi.Services = types.ServicesStatistics{}
	st.Vartheta = make(types.ReadyQueue, types.EpochLength)
	st.Xi = make(types.AccumulatedQueue, types.EpochLength)
	st.Delta = types.ServiceAccountState{}
	// Service accounts with storage items, a preimage with its lookup entry, and a lookup request without preimage
	// (variant 0 stays without services). Storage / lookup entries have hashed state keys: the node cannot map them back
	// into types.State and carries them as raw "unmatched" key-values from block to block — they must survive a rejected
	// block like everything else. No accumulation is needed: they only round-trip through SetState / commit / GetState.
	if variant > 0 {
		nsvc := 1 + variant%2
		for si := 0; si < nsvc; si++ {
			id := types.ServiceID(42 + 35*si + variant)
			acc := types.ServiceAccount{StorageDict: types.Storage{}, PreimageLookup: types.PreimagesMapEntry{}, LookupDict: types.LookupMetaMapEntry{}}
			var bytesTotal uint64
			nitems := 2 + (variant+si)%3
			for k := 0; k < nitems; k++ {
				val := bytes.Repeat([]byte{byte(0xA0 + k + variant)}, 5+17*k)
				acc.StorageDict[fmt.Sprintf("c26-key-%d-%d", variant, k)] = types.ByteSequence(val)
				bytesTotal += uint64(34 + len(val))
			}
			blob := types.ByteSequence(fmt.Sprintf("c26 preimage of service %d", id))
			ph := hash.Blake2bHash(blob)
			acc.PreimageLookup[ph] = blob
			acc.LookupDict[types.LookupMetaMapkey{Hash: ph, Length: types.U32(len(blob))}] = types.TimeSlotSet{st.Tau}
			req := hash.Blake2bHash([]byte(fmt.Sprintf("c26 requested only %d", id)))
			acc.LookupDict[types.LookupMetaMapkey{Hash: req, Length: 9}] = types.TimeSlotSet{}
			bytesTotal += uint64(81+len(blob)) + 81 + 9
			acc.ServiceInfo = types.ServiceInfo{
				CodeHash: hash.Blake2bHash([]byte(fmt.Sprintf("c26-service-code-%d", id))),
				Balance:  1_000_000_000,
				Items:    types.U32(nitems + 4),
				Bytes:    types.U64(bytesTotal),
			}
			st.Delta[id] = acc
		}
	}
	hdr := types.Header{Slot: st.Tau}
	hdr.Parent[0] = byte(variant + 1)
	hdr.ExtrinsicHash[1] = 0xC2
	return st, hdr
}

// ------------------------------------------------------------------------------------------------
// authoring

// safroleView is what the STF will have as posterior Safrole state when it validates the seal of a
// block with the given slot on top of pre (GP 6.13, 6.23, 6.24), computed independently of the node.
type safroleView struct {
	eta      types.EntropyBuffer
	kappa    types.ValidatorsData
	gammaK   types.ValidatorsData
	keys     []types.BandersnatchPublic
	tickets  []types.TicketBody
	newEpoch bool
}

func viewOf(pre *types.State, slot types.TimeSlot) safroleView {
	E := types.TimeSlot(types.EpochLength)
	e, mm := pre.Tau/E, pre.Tau%E
	ep := slot / E
	v := safroleView{eta: pre.Eta, kappa: pre.Kappa, gammaK: pre.Gamma.GammaK,
		keys: pre.Gamma.GammaS.Keys, tickets: pre.Gamma.GammaS.Tickets}
	if ep > e {
		v.newEpoch = true
		v.eta[3], v.eta[2], v.eta[1] = pre.Eta[2], pre.Eta[1], pre.Eta[0]
		v.kappa = pre.Gamma.GammaK
		v.gammaK = safrole.ReplaceOffenderKeys(pre.Iota)
		if ep == e+1 && len(pre.Gamma.GammaA) == types.EpochLength && int(mm) >= types.SlotSubmissionEnd {
			ga := append(types.TicketsAccumulator{}, pre.Gamma.GammaA...)
			v.tickets = safrole.OutsideInSequencer(&ga)
			v.keys = nil
		} else {
			v.keys = safrole.FallbackKeySequence(v.eta[2], v.kappa)
			v.tickets = nil
		}
	}
	return v
}

func ticketCtx(eta types.Entropy, attempt byte) []byte {
	c := append([]byte{}, []byte(types.JamTicketSeal)...)
	c = append(c, eta[:]...)
	return append(c, attempt)
}

// the stand-in's VRF output for (pk, context): the first 32 bytes of any IETF signature with that context
func vrfOut(sk, ctx []byte) []byte {
	s, _ := vrf.IETFSign(sk, ctx, nil)
	return s[:32]
}

// seal fills AuthorIndex (unless forced), EntropySource and Seal so that header passes the seal and
// entropy checks of the STF on top of pre. authorOverride >= 0 seals with that validator instead.
func seal(pre *types.State, hdr *types.Header, authorOverride int) {
	v := viewOf(pre, hdr.Slot)
	var key *valKey
	var ctx []byte
	if len(v.tickets) > 0 {
		t := v.tickets[int(hdr.Slot)%len(v.tickets)]
		ctx = ticketCtx(v.eta[3], byte(t.Attempt))
		for i := range v.kappa {
			k := byBander[v.kappa[i].Bandersnatch]
			if k != nil && bytes.Equal(vrfOut(k.bsk, ctx), t.ID[:]) {
				key = k
				hdr.AuthorIndex = types.ValidatorIndex(i)
				break
			}
		}
		if key == nil { // a ticket nobody of ours owns: cannot be sealed validly; seal with validator 0
			key = byBander[v.kappa[0].Bandersnatch]
			hdr.AuthorIndex = 0
		}
	} else {
		pk := v.keys[int(hdr.Slot)%len(v.keys)]
		key = byBander[pk]
		for i := range v.kappa {
			if v.kappa[i].Bandersnatch == pk {
				hdr.AuthorIndex = types.ValidatorIndex(i)
				break
			}
		}
		ctx = append(append([]byte{}, []byte(types.JamFallbackSeal)...), v.eta[3][:]...)
	}
	if authorOverride >= 0 {
		hdr.AuthorIndex = types.ValidatorIndex(authorOverride)
		if authorOverride < len(v.kappa) {
			key = byBander[v.kappa[authorOverride].Bandersnatch]
		}
	}
	ectx := append(append([]byte{}, []byte(types.JamEntropy)...), vrfOut(key.bsk, ctx)...)
	hv, _ := vrf.IETFSign(key.bsk, ectx, nil)
	copy(hdr.EntropySource[:], hv)
	resealOnly(key, ctx, hdr)
}

func resealOnly(key *valKey, ctx []byte, hdr *types.Header) {
	msg, err := utilities.HeaderUSerialization(*hdr)
	if err != nil {
		panic("verifh: header serialization " + err.Error())
	}
	s, _ := vrf.IETFSign(key.bsk, ctx, msg)
	copy(hdr.Seal[:], s)
}

func setExtrinsic(b *types.Block, ext types.Extrinsic) {
	b.Extrinsic = ext
	xh, err := utilities.CreateExtrinsicHash(ext)
	if err != nil {
		panic("verifh: extrinsic hash " + err.Error())
	}
	b.Header.ExtrinsicHash = xh
}

// markers the header must carry (GP 6.27, 6.28)
func setMarkers(pre *types.State, hdr *types.Header) {
	E := types.TimeSlot(types.EpochLength)
	v := viewOf(pre, hdr.Slot)
	hdr.EpochMark, hdr.TicketsMark = nil, nil
	if v.newEpoch {
		em := &types.EpochMark{Entropy: pre.Eta[0], TicketsEntropy: pre.Eta[1]}
		for _, x := range v.gammaK {
			em.Validators = append(em.Validators, types.EpochMarkValidatorKeys{Bandersnatch: x.Bandersnatch, Ed25519: x.Ed25519})
		}
		hdr.EpochMark = em
	} else if hdr.Slot/E == pre.Tau/E && int(pre.Tau%E) < types.SlotSubmissionEnd && int(hdr.Slot%E) >= types.SlotSubmissionEnd &&
		len(pre.Gamma.GammaA) == types.EpochLength {
		ga := append(types.TicketsAccumulator{}, pre.Gamma.GammaA...)
		tm := types.TicketsMark(safrole.OutsideInSequencer(&ga))
		hdr.TicketsMark = &tm
	}
}

// validTickets: up to K tickets that the STF accepts on top of pre at slot: identifiers are the
// stand-in VRF outputs of next epoch's validators, so that next epoch can be sealed by tickets.
func validTickets(rng *h.Rng, pre *types.State, slot types.TimeSlot) types.TicketsExtrinsic {
	v := viewOf(pre, slot)
	if int(slot%types.TimeSlot(types.EpochLength)) >= types.SlotSubmissionEnd {
		return nil
	}
	have := map[types.TicketID]bool{}
	if !v.newEpoch {
		for _, t := range pre.Gamma.GammaA {
			have[t.ID] = true
		}
	}
	type cand struct {
		id  types.TicketID
		att byte
	}
	var cands []cand
	for i := range v.gammaK { // next epoch's kappa
		k := byBander[v.gammaK[i].Bandersnatch]
		if k == nil {
			continue
		}
		for a := 0; a < types.TicketsPerValidator; a++ {
			var id types.TicketID
			copy(id[:], vrfOut(k.bsk, ticketCtx(v.eta[2], byte(a))))
			if !have[id] {
				cands = append(cands, cand{id, byte(a)})
			}
		}
	}
	n := 1 + rng.Intn(types.MaxTicketsPerBlock)
	if rng.Chance(2, 3) {
		n = types.MaxTicketsPerBlock
	}
	for i := len(cands) - 1; i > 0; i-- {
		j := rng.Intn(i + 1)
		cands[i], cands[j] = cands[j], cands[i]
	}
	if n > len(cands) {
		n = len(cands)
	}
	cands = cands[:n]
	sort.Slice(cands, func(i, j int) bool { return bytes.Compare(cands[i].id[:], cands[j].id[:]) < 0 })
	out := types.TicketsExtrinsic{}
	for _, c := range cands {
		var env types.TicketEnvelope
		env.Attempt = types.TicketAttempt(c.att)
		copy(env.Signature[:32], c.id[:])
		out = append(out, env)
	}
	return out
}

func assurance(pre *types.State, parent types.HeaderHash, vi int, bits byte) types.AvailAssurance {
	bfield, _ := types.MakeBitfieldFromByteSlice([]byte{bits})
	a := types.AvailAssurance{Anchor: parent, Bitfield: bfield, ValidatorIndex: types.ValidatorIndex(vi)}
	anchor := utilities.OpaqueHashWrapper{Value: types.OpaqueHash(parent)}.Serialize()
	bf := utilities.ByteSequenceWrapper{Value: types.ByteSequence(a.Bitfield.ToOctetSlice())}.Serialize()
	hs := hash.Blake2bHash(append(anchor, bf...))
	msg := append([]byte(types.JamAvailable), hs[:]...)
	if vi < len(pre.Kappa) {
		if k := byBander[pre.Kappa[vi].Bandersnatch]; k != nil {
			copy(a.Signature[:], ed25519.Sign(k.edsk, msg))
		}
	}
	return a
}

// author builds a block that the STF should accept on top of pre (posterior state of `parent`).
func author(rng *h.Rng, pre *types.State, parent types.HeaderHash, parentRoot types.StateRoot, slot types.TimeSlot, rich bool) types.Block {
	var b types.Block
	b.Header.Parent = parent
	b.Header.ParentStateRoot = parentRoot
	b.Header.Slot = slot
	setMarkers(pre, &b.Header)
	ext := types.Extrinsic{}
	if rich && slot > pre.Tau {
		if rng.Chance(3, 4) {
			ext.Tickets = validTickets(rng, pre, slot)
		}
		if rng.Chance(1, 3) {
			n := 1 + rng.Intn(types.ValidatorsCount)
			for vi := 0; vi < n; vi++ {
				ext.Assurances = append(ext.Assurances, assurance(pre, parent, vi, 0))
			}
		}
	}
	setExtrinsic(&b, ext)
	seal(pre, &b.Header, -1)
	return b
}

// ------------------------------------------------------------------------------------------------
// invalid blocks: a valid block with exactly one thing wrong (resealed, so that only that check fails)

var invalidKinds = []string{"slot", "proot", "xhash", "xbody", "seal", "entropy", "author", "authoroor", "epochmark",
	"ticketsmark", "offenders", "tixorder", "tixdup", "tixattempt", "tixproof", "tixtail", "tixmany", "preimage", "preimageorder",
	"assanchor", "assorder", "asssig", "assbit", "assindex", "noparent"}

func mutate(rng *h.Rng, kind string, pre *types.State, parent types.HeaderHash, parentRoot types.StateRoot, slot types.TimeSlot) types.Block {
	E := types.TimeSlot(types.EpochLength)
	b := author(rng, pre, parent, parentRoot, slot, false)
	hd := &b.Header
	switch kind {
	case "slot": // not after the parent's slot
		back := types.TimeSlot(rng.Intn(3))
		if back > pre.Tau {
			back = pre.Tau
		}
		b = author(rng, pre, parent, parentRoot, pre.Tau-back, false)
	case "proot":
		if rng.Bool() {
			hd.ParentStateRoot[rng.Intn(32)] ^= 1 << uint(rng.Intn(8))
		} else {
			hd.ParentStateRoot = types.StateRoot(blake2b.Sum256(parentRoot[:]))
		}
		seal(pre, hd, -1)
	case "xhash":
		hd.ExtrinsicHash[rng.Intn(32)] ^= 0x10
		seal(pre, hd, -1)
	case "xbody": // header of a valid block, different extrinsic body (same header hash as the valid block)
		b.Extrinsic.Preimages = types.PreimagesExtrinsic{{Requester: 7, Blob: types.ByteSequence{1, 2, 3}}}
	case "seal":
		hd.Seal[32+rng.Intn(32)] ^= 0x01
	case "entropy": // H_v wrong, seal correct over the wrong H_v
		hd.EntropySource[32+rng.Intn(32)] ^= 0x01
		v := viewOf(pre, hd.Slot)
		if len(v.tickets) == 0 {
			pk := v.keys[int(hd.Slot)%len(v.keys)]
			ctx := append(append([]byte{}, []byte(types.JamFallbackSeal)...), v.eta[3][:]...)
			resealOnly(byBander[pk], ctx, hd)
		}
	case "author": // another validator of the set authors and seals
		other := (int(hd.AuthorIndex) + 1 + rng.Intn(types.ValidatorsCount-1)) % types.ValidatorsCount
		seal(pre, hd, other)
	case "authoroor":
		seal(pre, hd, types.ValidatorsCount+rng.Intn(3))
	case "epochmark":
		if hd.EpochMark != nil {
			if rng.Bool() {
				hd.EpochMark = nil
			} else {
				em := *hd.EpochMark
				em.Entropy[0] ^= 1
				hd.EpochMark = &em
			}
		} else {
			em := &types.EpochMark{Entropy: pre.Eta[0], TicketsEntropy: pre.Eta[1]}
			for _, x := range pre.Gamma.GammaK {
				em.Validators = append(em.Validators, types.EpochMarkValidatorKeys{Bandersnatch: x.Bandersnatch, Ed25519: x.Ed25519})
			}
			hd.EpochMark = em
		}
		seal(pre, hd, -1)
	case "ticketsmark":
		if hd.TicketsMark != nil {
			hd.TicketsMark = nil
		} else {
			tm := make(types.TicketsMark, types.EpochLength)
			for i := range tm {
				tm[i].ID[0] = byte(i)
			}
			hd.TicketsMark = &tm
		}
		seal(pre, hd, -1)
	case "offenders":
		hd.OffendersMark = types.OffendersMark{pre.Kappa[0].Ed25519}
		seal(pre, hd, -1)
	case "tixorder", "tixdup", "tixattempt", "tixproof", "tixtail", "tixmany":
		s := slot
		if kind == "tixtail" { // move into the epoch tail if possible
			s = slot - slot%E + types.TimeSlot(types.SlotSubmissionEnd) + types.TimeSlot(rng.Intn(int(E)-types.SlotSubmissionEnd))
			if s <= pre.Tau {
				s = slot
			}
		} else if int(slot%E) >= types.SlotSubmissionEnd {
			s = slot - slot%E + E // first slot of the next epoch
		}
		b = author(rng, pre, parent, parentRoot, s, false)
		hd = &b.Header
		mk := func(x byte, att byte) types.TicketEnvelope {
			var env types.TicketEnvelope
			env.Attempt = types.TicketAttempt(att)
			env.Signature[0], env.Signature[1] = x, byte(rng.Intn(256))
			return env
		}
		var tx types.TicketsExtrinsic
		switch kind {
		case "tixorder":
			tx = types.TicketsExtrinsic{mk(9, 0), mk(3, 1)}
		case "tixdup":
			e := mk(5, 0)
			tx = types.TicketsExtrinsic{e, e}
		case "tixattempt":
			tx = types.TicketsExtrinsic{mk(1, byte(types.TicketsPerValidator+rng.Intn(3)))}
		case "tixproof":
			e := mk(2, 0)
			e.Signature[783] = 0xFF
			tx = types.TicketsExtrinsic{mk(1, 1), e}
		case "tixtail":
			tx = types.TicketsExtrinsic{mk(1, 0)}
		case "tixmany":
			for i := 0; i < types.ValidatorsCount+1; i++ {
				tx = append(tx, mk(byte(i+1), 0))
			}
		}
		ext := b.Extrinsic
		ext.Tickets = tx
		setExtrinsic(&b, ext)
		seal(pre, hd, -1)
	case "preimage", "preimageorder":
		ext := b.Extrinsic
		if kind == "preimage" {
			ext.Preimages = types.PreimagesExtrinsic{{Requester: types.ServiceID(rng.Intn(5)), Blob: rng.Bytes(1 + rng.Intn(8))}}
		} else {
			ext.Preimages = types.PreimagesExtrinsic{{Requester: 9, Blob: []byte{2}}, {Requester: 3, Blob: []byte{1}}}
		}
		setExtrinsic(&b, ext)
		seal(pre, hd, -1)
	case "assanchor", "assorder", "asssig", "assbit", "assindex":
		ext := b.Extrinsic
		switch kind {
		case "assanchor":
			bad := parent
			bad[3] ^= 0x40
			ext.Assurances = types.AssurancesExtrinsic{assurance(pre, bad, 0, 0)}
		case "assorder":
			ext.Assurances = types.AssurancesExtrinsic{assurance(pre, parent, 3, 0), assurance(pre, parent, 1, 0)}
		case "asssig":
			a := assurance(pre, parent, rng.Intn(types.ValidatorsCount), 0)
			a.Signature[rng.Intn(64)] ^= 4
			ext.Assurances = types.AssurancesExtrinsic{assurance(pre, parent, 0, 0), a}
			if a.ValidatorIndex == 0 {
				ext.Assurances = types.AssurancesExtrinsic{a}
			}
		case "assbit": // bit set for a core without pending report
			ext.Assurances = types.AssurancesExtrinsic{assurance(pre, parent, 2, 1+byte(rng.Intn(3)))}
		case "assindex":
			a := assurance(pre, parent, 0, 0)
			a.ValidatorIndex = types.ValidatorIndex(types.ValidatorsCount + rng.Intn(4))
			ext.Assurances = types.AssurancesExtrinsic{a}
		}
		setExtrinsic(&b, ext)
		seal(pre, hd, -1)
	case "noparent":
		hd.Parent = types.HeaderHash(blake2b.Sum256(append([]byte("nope"), parent[:]...)))
		seal(pre, hd, -1)
	}
	return b
}

// ------------------------------------------------------------------------------------------------
// history

type op struct {
	kind    byte // 'S' 'I' 'G'
	variant int
	anc     bool
	blk     types.Block
	hash    types.HeaderHash
	text    string // rendered operation
}

type known struct {
	hash  types.HeaderHash
	root  types.StateRoot
	state types.State
	slot  types.TimeSlot
}

type runner struct {
	svc fuzz.FuzzServiceStub
}

func digestKVs(kvs types.StateKeyVals) (string, string) {
	s := make(types.StateKeyVals, len(kvs))
	copy(s, kvs)
	sort.Slice(s, func(i, j int) bool { return bytes.Compare(s[i].Key[:], s[j].Key[:]) < 0 })
	hh, _ := blake2b.New256(nil)
	for _, kv := range s {
		hh.Write(kv.Key[:])
		l := len(kv.Value)
		hh.Write([]byte{byte(l), byte(l >> 8), byte(l >> 16), byte(l >> 24)})
		hh.Write(kv.Value)
	}
	root := m.MerklizationSerializedState(s)
	return fmt.Sprintf("%x", hh.Sum(nil)[:6]), fmt.Sprintf("%x", root[:6])
}

func sanitize(s string) string {
	var sb strings.Builder
	for _, c := range strings.ToLower(s) {
		switch {
		case c >= 'a' && c <= 'z', c >= '0' && c <= '9':
			sb.WriteRune(c)
		default:
			if sb.Len() > 0 && !strings.HasSuffix(sb.String(), "_") {
				sb.WriteByte('_')
			}
		}
		if sb.Len() > 40 {
			break
		}
	}
	out := strings.Trim(sb.String(), "_")
	if out == "" {
		out = "x"
	}
	return out
}

// error kind: message text without the hash fragments it may quote
func errKind(err error) string {
	s := err.Error()
	switch {
	case strings.Contains(s, "is not part of the finalized block"), strings.Contains(s, "is already finalized"):
		return "refused_ancestry" // the node's admission policy (two message variants, chosen by a block-number index lookup)
	case strings.Contains(s, "failed to restore block and state"):
		return "refused_noparent"
	}
	var sb strings.Builder
	for i := 0; i < len(s); i++ {
		if s[i] == '0' && i+1 < len(s) && s[i+1] == 'x' { // skip 0x....
			i += 2
			for i < len(s) && strings.IndexByte("0123456789abcdefABCDEF", s[i]) >= 0 {
				i++
			}
			sb.WriteByte('H')
			i--
			continue
		}
		sb.WriteByte(s[i])
	}
	return sanitize(sb.String())
}

// exec runs one operation on the node; returns the result token and, for accepted states, the decoded post state
func (r *runner) exec(o *op) (res string, k *known) {
	defer func() {
		if rec := recover(); rec != nil {
			if os.Getenv("C26_TRACE") != "" {
				fmt.Fprintf(os.Stderr, "PANIC %v\n%s\n", rec, debug.Stack())
			}
			res, k = strings.ReplaceAll(h.Guard(func() string { panic(rec) }), " ", ":"), nil
		}
	}()
	return func() (string, *known) {
		switch o.kind {
		case 'S':
			st, hdr := genesisState(o.variant)
			kvs, err := m.StateEncoder(st)
			if err != nil {
				return "fatal:encode", nil
			}
			var anc types.Ancestry
			if o.anc {
				anc = types.Ancestry{{Slot: hdr.Slot, HeaderHash: o.hash}}
			}
			root, err := r.svc.SetState(hdr, kvs, anc)
			if err != nil {
				return "no:" + errKind(err), nil
			}
			return r.accepted(o.hash, root, hdr.Slot)
		case 'I':
			root, err := r.svc.ImportBlock(o.blk)
			if err != nil {
				if strings.Contains(err.Error(), "STF runtime error") {
					return "fatal:" + errKind(err), nil
				}
				return "no:" + errKind(err), nil
			}
			return r.accepted(o.hash, root, o.blk.Header.Slot)
		default:
			kvs, err := r.svc.GetState(o.hash)
			if err != nil {
				return "none", nil
			}
			d, kr := digestKVs(kvs)
			return "kv:" + d + ":" + kr, nil
		}
	}()
}

func (r *runner) accepted(hh types.HeaderHash, root types.StateRoot, slot types.TimeSlot) (string, *known) {
	kvs, err := r.svc.GetState(hh)
	if err != nil {
		return fmt.Sprintf("ok:%x:nostate", root[:6]), nil
	}
	d, kr := digestKVs(kvs)
	res := fmt.Sprintf("ok:%x:%s", root[:6], d)
	if kr != fmt.Sprintf("%x", root[:6]) {
		res += ":badkvroot"
	}
	st, _, err := m.StateKeyValsToState(kvs)
	if err != nil {
		return res + ":undecodable", nil
	}
	return res, &known{hash: hh, root: root, state: st, slot: slot}
}

type ids struct {
	hashes map[types.HeaderHash]int
	blocks map[string]int
}

func (x *ids) hid(hh types.HeaderHash) int {
	if v, ok := x.hashes[hh]; ok {
		return v
	}
	x.hashes[hh] = len(x.hashes)
	return len(x.hashes) - 1
}

func (x *ids) bid(b *types.Block) int {
	enc, err := types.NewEncoder().Encode(b)
	if err != nil {
		enc = []byte(fmt.Sprintf("%v", *b))
	}
	k := string(enc)
	if v, ok := x.blocks[k]; ok {
		return v
	}
	x.blocks[k] = len(x.blocks)
	return len(x.blocks) - 1
}

func b2i(b bool) int {
	if b {
		return 1
	}
	return 0
}

func headerHash(hd types.Header) types.HeaderHash {
	hh, err := hash.ComputeBlockHeaderHash(hd)
	if err != nil {
		panic("verifh: header hash " + err.Error())
	}
	return hh
}

type histResult struct {
	ops     []op
	results []string
}

// generate-and-run on node A
func runA(rng *h.Rng, nops int, anc, rich bool, st h.Stats, script []string) histResult {
	x := &ids{hashes: map[types.HeaderHash]int{}, blocks: map[string]int{}}
	r := &runner{}
	var out histResult
	var good []*known // accepted states of the current SetState segment, in acceptance order
	var refused []op  // refused imports (for retries)
	var allHashes []types.HeaderHash
	var head *known
	// The node keeps the states of the last 24 accepted imports only (fuzzenv.FuzzPersistentRetainBlocks; pruning is
	// outside the model): a hash is used for GetState / as parent of a fork, retry or re-import only while fewer than
	// `window` imports were accepted since its LATEST acceptance (a block imported again is retained anew). The SetState
	// header is never pruned. Any accepted block may be imported again, however old, as long as its parent qualifies.
	const window = 22
	accCount := 0
	segStart := 0
	var genesis types.HeaderHash
	firstAcc := map[types.HeaderHash]int{} // latest acceptance count per hash
	eligible := func(hh types.HeaderHash) bool {
		f, ok := firstAcc[hh]
		return ok && (hh == genesis || accCount-f < window)
	}
	push := func(o op) string {
		res, k := r.exec(&o)
		out.ops = append(out.ops, o)
		out.results = append(out.results, res)
		if k == nil && o.kind == 'I' && strings.HasPrefix(res, "ok:") {
			// accepted, but the node does not serve the state (":nostate"): the head moved all the same; keep authoring on
			// it from the state the harness saw when this block was accepted before
			for i := len(good) - 1; i >= 0; i-- {
				if good[i].hash == o.hash {
					c := *good[i]
					k = &c
					break
				}
			}
		}
		if k != nil {
			if o.kind == 'S' {
				accCount = 0
				firstAcc = map[types.HeaderHash]int{}
				genesis = k.hash
				segStart = len(out.ops) - 1
			}
			accCount++
			firstAcc[k.hash] = accCount
			good = append(good, k)
			head = k
		} else if o.kind == 'I' && !strings.HasPrefix(res, "ok:") {
			refused = append(refused, o)
		}
		return res
	}
	setState := func(variant int) {
		_, hdr := genesisState(variant)
		hh := headerHash(hdr)
		good, refused, head = nil, nil, nil
		allHashes = append(allHashes, hh)
		push(op{kind: 'S', variant: variant, anc: anc, hash: hh, text: fmt.Sprintf("S.g%d.h%d.t%d.a%d", variant, x.hid(hh), hdr.Slot, b2i(anc))})
		st.Inc("op-setstate")
	}
	imp := func(b types.Block, label string) string {
		hh := headerHash(b.Header)
		feat := ""
		if b.Header.EpochMark != nil {
			feat += "E" // first block of an epoch
		}
		if b.Header.TicketsMark != nil {
			feat += "W" // winning-tickets marker
		}
		for _, k := range good {
			if k.hash == b.Header.Parent {
				if len(viewOf(&k.state, b.Header.Slot).tickets) > 0 {
					feat += "T" // sealed with a ticket (not a fallback key)
				}
				break
			}
		}
		if len(b.Extrinsic.Tickets) > 0 {
			feat += "x"
		}
		if len(b.Extrinsic.Assurances) > 0 {
			feat += "a"
		}
		base := label
		if feat != "" {
			label += "+" + feat
		}
		allHashes = append(allHashes, hh)
		res := push(op{kind: 'I', blk: b, hash: hh,
			text: fmt.Sprintf("I.b%d.h%d.p%d.t%d.%s", x.bid(&b), x.hid(hh), x.hid(b.Header.Parent), b.Header.Slot, label)})
		cls := res
		if i := strings.IndexByte(res, ':'); i >= 0 {
			cls = res[:i]
		}
		st.Inc("import-" + base + "-" + cls)
		for _, c := range feat {
			st.Inc("feature-" + map[rune]string{'E': "epoch-change", 'W': "tickets-mark", 'T': "ticket-sealed", 'x': "tickets-extrinsic", 'a': "assurances"}[c] + "-" + cls)
		}
		return res
	}
	forkback := nops >= 40 && rng.Chance(1, 3)
	campaign := rich && rng.Bool() // consecutive slots and full ticket extrinsics, so that a ticket-sealed epoch is reached
	nextSlot := func(k *known) types.TimeSlot {
		E := types.TimeSlot(types.EpochLength)
		if campaign && rng.Chance(9, 10) {
			return k.slot + 1
		}
		switch rng.Intn(10) {
		case 0: // first slot of the next epoch
			return k.slot - k.slot%E + E
		case 1: // skip a whole epoch
			return k.slot + E + types.TimeSlot(rng.Intn(int(E)))
		case 2, 3:
			return k.slot + 2 + types.TimeSlot(rng.Intn(3))
		default:
			return k.slot + 1
		}
	}
	recent := func() *known { // a recently accepted state (within the node's retention window)
		var c []*known
		for i := len(good) - 1; i >= 0 && len(good)-i <= 8; i-- {
			if eligible(good[i].hash) {
				c = append(c, good[i])
			}
		}
		if len(c) == 0 {
			return head
		}
		return c[rng.Intn(len(c))]
	}
	if script != nil {
		// scripted history (corpus / hand-written witnesses): set<v> child child+<n> fork bad:<kind> retry again get
		var expanded []string
		for _, a := range script { // <action>*<n> repeats an action
			if i := strings.IndexByte(a, '*'); i > 0 {
				for k := 0; k < h.I(a[i+1:]); k++ {
					expanded = append(expanded, a[:i])
				}
			} else {
				expanded = append(expanded, a)
			}
		}
		for _, a := range expanded {
			if head == nil && !strings.HasPrefix(a, "set") {
				break
			}
			switch {
			case strings.HasPrefix(a, "set"):
				setState(h.I(a[3:]))
			case a == "child":
				imp(author(rng, &head.state, head.hash, head.root, head.slot+1, rich), "child")
			case strings.HasPrefix(a, "child+"):
				imp(author(rng, &head.state, head.hash, head.root, head.slot+types.TimeSlot(h.I(a[6:])), rich), "child")
			case a == "fork": // sibling of the head: another child of the state accepted before it
				if len(good) >= 2 {
					k := good[len(good)-2]
					imp(author(rng, &k.state, k.hash, k.root, head.slot+1, rich), "fork")
				}
			case strings.HasPrefix(a, "oldfork"): // child of the state accepted before the head, at a slot below the head's
				if len(good) >= 2 {
					k := good[len(good)-2]
					imp(author(rng, &k.state, k.hash, k.root, k.slot+1, rich), "fork")
				}
			case strings.HasPrefix(a, "bad:"):
				imp(mutate(rng, a[4:], &head.state, head.hash, head.root, head.slot+1), a[4:])
			case strings.HasPrefix(a, "badold:"): // invalid block on the state accepted before the head
				if len(good) >= 2 {
					k := good[len(good)-2]
					imp(mutate(rng, a[7:], &k.state, k.hash, k.root, head.slot+1), a[7:])
				}
			case a == "retry":
				if len(refused) > 0 {
					imp(refused[len(refused)-1].blk, "retry")
				}
			case a == "again":
				for i := len(out.ops) - 1; i >= 0; i-- {
					if out.ops[i].kind == 'I' && strings.HasPrefix(out.results[i], "ok:") {
						imp(out.ops[i].blk, "again")
						break
					}
				}
			case strings.HasPrefix(a, "reimport:"): // the k-th accepted import of this history again (1-based), however old
				k := h.I(a[9:])
				for i := range out.ops {
					if out.ops[i].kind == 'I' && strings.HasPrefix(out.results[i], "ok:") {
						k--
						if k == 0 {
							imp(out.ops[i].blk, "again")
							break
						}
					}
				}
			case strings.HasPrefix(a, "get:"): // GetState of the k-th accepted import of this history (1-based)
				k := h.I(a[4:])
				for i := range out.ops {
					if out.ops[i].kind == 'I' && strings.HasPrefix(out.results[i], "ok:") {
						k--
						if k == 0 {
							push(op{kind: 'G', hash: out.ops[i].hash, text: fmt.Sprintf("G.h%d", x.hid(out.ops[i].hash))})
							break
						}
					}
				}
			case a == "get":
				push(op{kind: 'G', hash: head.hash, text: fmt.Sprintf("G.h%d", x.hid(head.hash))})
			default:
				panic("verifh: bad script action " + a)
			}
		}
		nops = 0
	} else {
		setState(rng.Intn(6))
	}
	for len(out.ops) < nops {
		if head == nil { // SetState failed: nothing to build on
			break
		}
		c := rng.Intn(100)
		if forkback { // long chain, then fork back to the oldest block whose parent the node still retains
			switch {
			case c >= 50 && c < 72:
				c = 0
			case c >= 72 && c < 80 && accCount >= 16:
				var first *op
				for i := segStart; i < len(out.ops); i++ {
					o := out.ops[i]
					if o.kind == 'I' && strings.HasPrefix(out.results[i], "ok:") && eligible(o.blk.Header.Parent) && firstAcc[o.hash] > 0 &&
						accCount-firstAcc[o.hash] >= 12 {
						first = &out.ops[i]
						break
					}
				}
				if first != nil {
					imp(first.blk, "again")
					continue
				}
			}
		}
		switch {
		case c < 40: // valid child of the head
			imp(author(rng, &head.state, head.hash, head.root, nextSlot(head), rich), "child")
		case c < 50: // valid block on a recent non-head state (fork / sibling)
			k := recent()
			imp(author(rng, &k.state, k.hash, k.root, nextSlot(k), rich), "fork")
		case c < 72: // invalid block on the head (or on a recent state)
			k := head
			if rng.Chance(1, 4) {
				k = recent()
			}
			kind := invalidKinds[rng.Intn(len(invalidKinds))]
			imp(mutate(rng, kind, &k.state, k.hash, k.root, nextSlot(k)), kind)
		case c < 80: // retry a refused block
			if len(refused) == 0 {
				continue
			}
			o := refused[len(refused)-1]
			if rng.Chance(1, 3) {
				o = refused[rng.Intn(len(refused))]
			}
			if _, was := firstAcc[o.blk.Header.Parent]; was && !eligible(o.blk.Header.Parent) {
				continue // its parent may have left the node's retention window
			}
			imp(o.blk, "retry")
		case c < 85: // re-import an accepted block
			var cand []op
			for i, o := range out.ops {
				if i >= segStart && o.kind == 'I' && strings.HasPrefix(out.results[i], "ok:") && eligible(o.blk.Header.Parent) {
					cand = append(cand, o)
				}
			}
			if len(cand) == 0 {
				continue
			}
			w := 6
			if len(cand) < w {
				w = len(cand)
			}
			o := cand[len(cand)-1-rng.Intn(w)]
			switch rng.Intn(3) {
			case 0:
				o = cand[len(cand)-1]
			case 1: // any earlier block, however old (fork back after a long chain: its stale retention entry is still around)
				o = cand[rng.Intn(len(cand))]
			}
			imp(o.blk, "again")
		case c < 98: // GetState
			var hh types.HeaderHash
			switch rng.Intn(4) {
			case 0:
				hh = head.hash
			case 1:
				hh = recent().hash
			case 2:
				hh = allHashes[rng.Intn(len(allHashes))]
			default:
				hh = types.HeaderHash(blake2b.Sum256(rng.Bytes(8)))
			}
			if _, was := firstAcc[hh]; was && !eligible(hh) { // accepted long ago: may have left the retention window
				hh = recent().hash
				if !eligible(hh) {
					continue
				}
			}
			push(op{kind: 'G', hash: hh, text: fmt.Sprintf("G.h%d", x.hid(hh))})
			st.Inc("op-getstate")
		default:
			setState(rng.Intn(6))
		}
	}
	// closing re-reads: every hash of the last window again (aliasing / late corruption shows here)
	seen := map[types.HeaderHash]bool{}
	for i := len(good) - 1; i >= 0 && i >= len(good)-8; i-- {
		if !seen[good[i].hash] && eligible(good[i].hash) {
			seen[good[i].hash] = true
			push(op{kind: 'G', hash: good[i].hash, text: fmt.Sprintf("G.h%d", x.hid(good[i].hash))})
		}
	}
	for _, o := range refused {
		if _, was := firstAcc[o.hash]; !seen[o.hash] && !was {
			seen[o.hash] = true
			push(op{kind: 'G', hash: o.hash, text: fmt.Sprintf("G.h%d", x.hid(o.hash))})
		}
	}
	return out
}

func replay(ops []op, keep []bool) []string {
	r := &runner{}
	var res []string
	for i := range ops {
		if keep != nil && !keep[i] {
			continue
		}
		o := ops[i]
		s, _ := r.exec(&o)
		res = append(res, o.text+"="+s)
	}
	return res
}

func gen(rng *h.Rng, tier string, emit func(string)) {
	st := h.Stats{}
	n := 100
	if tier == "thorough" {
		n = 1500
	}
	for i := 0; i < n; i++ {
		nops := []int{12, 25, 40, 60}[rng.Intn(4)]
		if i%10 == 9 {
			nops = 120
		}
		c := fmt.Sprintf("hist %d %d %d %d", rng.U64()>>1, nops, rng.Intn(4)/3, rng.Intn(2))
		emit(c)
		st.Inc("histories")
		if i < 24 { // distribution of what the histories contain, measured on a sample (generation = execution on node A)
			f := strings.Fields(c)
			sst := h.Stats{}
			h.Guard(func() string { runA(h.NewRng(h.U(f[1])), h.I(f[2]), f[3] == "1", f[4] == "1", sst, nil); return "" })
			for k, v := range sst {
				st["sample24-"+k] += v
			}
		}
	}
	h.EmitStats(emit, st)
}

func run(input string) string {
	f := strings.Fields(input)
	if len(f) != 5 || (f[0] != "hist" && f[0] != "script") {
		return "BADCASE"
	}
	// hist <seed> <nops> <anc> <tix>   |   script <seed> <a1,a2,...> <anc> <tix>
	rng := h.NewRng(h.U(f[1]))
	st := h.Stats{}
	var a histResult
	if f[0] == "script" {
		a = runA(rng, 0, f[3] == "1", f[4] == "1", st, strings.Split(f[2], ","))
	} else {
		a = runA(rng, h.I(f[2]), f[3] == "1", f[4] == "1", st, nil)
	}
	var parts []string
	ar := make([]string, len(a.ops))
	for i := range a.ops {
		ar[i] = a.ops[i].text + "=" + a.results[i]
	}
	parts = append(parts, "A m=- "+strings.Join(ar, " "))
	if os.Getenv("C26_SUB") != "" {
		return parts[0]
	}
	// B1: all refused imports removed; B2: a random subset removed
	keep1 := make([]bool, len(a.ops))
	keep2 := make([]bool, len(a.ops))
	for i := range a.ops {
		ref := a.ops[i].kind == 'I' && !strings.HasPrefix(a.results[i], "ok:")
		keep1[i] = !ref
		keep2[i] = !ref || rng.Bool()
	}
	mask := func(keep []bool) string {
		b := make([]byte, len(keep))
		for i, k := range keep {
			b[i] = '1' // 1 = deleted
			if k {
				b[i] = '0'
			}
		}
		return "m=" + string(b) + " "
	}
	all := make([]bool, len(a.ops))
	for i := range all {
		all[i] = true
	}
	parts = append(parts, "B1 "+mask(keep1)+strings.Join(replay(a.ops, keep1), " "))
	parts = append(parts, "B2 "+mask(keep2)+strings.Join(replay(a.ops, keep2), " "))
	// B3: exactly one refused import removed (in scripts the first one, otherwise a random one), everything after it kept:
	// a later import that A refuses only because of what that block left behind is accepted here
	var refIdx []int
	for i := range a.ops {
		if !keep1[i] {
			refIdx = append(refIdx, i)
		}
	}
	if len(refIdx) > 0 {
		keep3 := make([]bool, len(a.ops))
		for i := range keep3 {
			keep3[i] = true
		}
		pick := refIdx[0]
		if f[0] != "script" {
			pick = refIdx[rng.Intn(len(refIdx))]
		}
		keep3[pick] = false
		parts = append(parts, "B3 "+mask(keep3)+strings.Join(replay(a.ops, keep3), " "))
	}
	parts = append(parts, "A2 "+mask(all)+strings.Join(replay(a.ops, nil), " "))
	// X: the same history generated and executed again in a freshly started process (a really fresh node)
	if os.Getenv("C26_SUB") == "" && (f[0] == "script" || h.U(f[1])%4 == 0) {
		cmd := exec.Command(os.Args[0], "run")
		cmd.Env = append(os.Environ(), "C26_SUB=1")
		cmd.Stdin = strings.NewReader(input + "\n")
		outb, err := cmd.Output()
		x := "X " + mask(all) + "SUBPROCESS-FAILED"
		if err == nil {
			line := strings.TrimSpace(string(outb))
			if i := strings.Index(line, " | A m=- "); i >= 0 {
				x = "X " + mask(all) + line[i+9:]
			}
		}
		parts = append(parts, x)
	}
	return strings.Join(parts, " # ")
}

func main() {
	os.Setenv("JAM_FUZZ", "1")
	logger.ConfigureLogger("main", logger.LoggerConfig{Level: "FATAL", Enabled: false})
	logger.ConfigureLogger("pvm", logger.LoggerConfig{Level: "FATAL", Enabled: false})
	types.SetTinyMode()
	initPool()
	debug.SetGCPercent(400)
	if pf := os.Getenv("C26_PROF"); pf != "" {
		f, _ := os.Create(pf)
		pprof.StartCPUProfile(f)
		defer pprof.StopCPUProfile()
	}
	h.Main(gen, run)
}
