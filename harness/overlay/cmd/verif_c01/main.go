//go:build verif

// C01 harness: see internal/verifpvm (shared by C01, C04, C05).
package main

import (
	"github.com/New-JAMneration/JAM-Protocol/internal/verifpvm"
)

func main() { verifpvm.Main(verifpvm.GenC01, verifpvm.Run) }
