//go:build verif

// C01 harness: see internal/verifpvm (shared by C01, C04, C05).
package main

import (
	h "github.com/New-JAMneration/JAM-Protocol/internal/verifh"
	"github.com/New-JAMneration/JAM-Protocol/internal/verifpvm"
)

func main() { h.Main(verifpvm.GenC01, verifpvm.Run) }
