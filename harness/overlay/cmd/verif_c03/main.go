//go:build verif

// C03 harness: untrusted program bytes through the blob parser, the standard-program initialiser, the
// top-level invocation Psi_M and the `machine` host call, each under recover(), with the heap
// allocation of the call measured (runtime.MemStats.TotalAlloc delta) and a watchdog.
//
// case input
//
//	deblob <blob> <xcap>            DeBlobProgramCode on a slice with <xcap> spare bytes of capacity behind it
//	djump  <blob> <a>               DeBlobProgramCode, then the dynamic-jump table lookup for address a
//	init   <blob> <arglen> <xcap>   SingleInitializer(blob, argument of arglen bytes)
//	psim   <blob> <arglen> <gas>    Psi_M(blob, 0, gas, argument) with the node's gas and machine host calls
//	mach   <inner> <i>              the machine host call on an inner blob placed in guest memory
//	refine <inner> <gas>            Psi_M on an assembled refine program that passes <inner> to machine and halts with ω7
//	range  <call> <start> <len> <blob>  Psi_M (gas 100) on an assembled program that puts the 64-bit values start, len into the
//	                                pointer/length registers of <call> = halt | log | mach | export and makes that call
//
// output (the OCaml driver replaces a=<bytes> by a=ok when it is within the model's bound, and ignores k=)
//
//	deblob: rej a=N | ok ni=<instrs> nb=<blocks> js=<|j|> jl=<z> jd=<len E_z(j)> sb=<has sbrk> a=N
//	djump : rej | panic | halt | go:<pc>
//	init  : rej a=N | ok c=<|c|> pg=<pages> hp=<heap pointer> hl=<heap limit> a=N
//	psim  : skip-sbrk | def k=<halt|panic|oog> g=<ok|OVER:n> a=N | UNDEF:<what>
//	mach  : r7=<n> n=<machines> a=N
//	refine: k=<..> out=<hex of the halt output> g=<ok|OVER:n>
//	range : k=<..> olen=<length of the halt output> g=<ok|OVER:n> a=N
//
// A Go runtime panic is GOPANIC <kind>; a call that does not return within the watchdog is HANG, a heap
// beyond the guard is OOM (the harness then stops: the remaining cases are not run).
package main

import (
	"bufio"
	"fmt"
	"os"
	"runtime"
	"runtime/debug"
	"runtime/metrics"
	"strings"
	"syscall"
	"time"

	"github.com/New-JAMneration/JAM-Protocol/PVM"
	"github.com/New-JAMneration/JAM-Protocol/internal/types"
	h "github.com/New-JAMneration/JAM-Protocol/internal/verifh"
)

const (
	zp = 4096
	zz = 65536
	zi = 1 << 24

	maxArg    = 20 << 20 // size pre-check: the harness never builds an argument above 20 MiB
	heapGuard = 6 << 30  // abort when the live heap passes 6 GiB
	watchdog  = 15 * time.Second
)

// ---------------------------------------------------------------- measuring, watchdog

type result struct {
	out   string
	alloc uint64
}

var (
	protoOut *bufio.Writer
	ticker   = time.NewTicker(50 * time.Millisecond)
	heapSmp  = []metrics.Sample{{Name: "/memory/classes/heap/objects:bytes"}}
)

// measured runs f on its own goroutine under recover(), returns its output and the bytes the Go
// runtime allocated meanwhile. The calling goroutine only waits, so the delta belongs to f.
func measured(line string, f func() string) result {
	ch := make(chan result, 1)
	go func() {
		var m0, m1 runtime.MemStats
		runtime.ReadMemStats(&m0)
		out := h.Guard(f)
		runtime.ReadMemStats(&m1)
		ch <- result{out, m1.TotalAlloc - m0.TotalAlloc}
	}()
	start, cpu0 := time.Now(), cpuTime()
	for {
		select {
		case r := <-ch:
			return r
		case <-ticker.C:
			metrics.Read(heapSmp)
			if heapSmp[0].Value.Uint64() > heapGuard {
				abort(line, "OOM")
			}
			// a call that loops burns CPU: the watchdog counts the CPU time of this process (cases run one at a time), so that a
			// machine under heavy load (a thorough run next to 20 test suites produced one false HANG with a wall-clock watchdog)
			// does not turn a slow case into HANG; the wall clock only catches a call that blocks without using CPU
			if cpuTime()-cpu0 > watchdog || time.Since(start) > 40*watchdog {
				abort(line, "HANG")
			}
		}
	}
}

// cpuTime is the user+system CPU time consumed by this process so far.
func cpuTime() time.Duration {
	var ru syscall.Rusage
	if err := syscall.Getrusage(syscall.RUSAGE_SELF, &ru); err != nil {
		return 0
	}
	return time.Duration(ru.Utime.Nano() + ru.Stime.Nano())
}

func abort(line, what string) {
	protoOut.WriteString(line + " | " + what + "\n")
	protoOut.Flush()
	os.Exit(0)
}

// ---------------------------------------------------------------- running cases

func withCap(b []byte, xcap int) []byte {
	buf := make([]byte, len(b)+xcap)
	copy(buf, b)
	for i := len(b); i < len(buf); i++ {
		buf[i] = 0xAA
	}
	return buf[:len(b)]
}

func mkArg(n int) []byte {
	a := make([]byte, n)
	for i := range a {
		a[i] = byte(i*7 + 1)
	}
	return a
}

func hasSbrk(p *PVM.Program) bool {
	for i := range p.Instrs {
		if p.Instrs[i].Opcode == 101 {
			return true
		}
	}
	return false
}

func b01(b bool) int {
	if b {
		return 1
	}
	return 0
}

func omegas() PVM.Omegas {
	om := make(PVM.Omegas, len(PVM.HostCallFunctions))
	om[PVM.GasOp] = PVM.HostCallFunctions[PVM.GasOp]
	om[PVM.MachineOp] = PVM.HostCallFunctions[PVM.MachineOp]
	return om
}

// the table of the range cases: gas, machine, export and log (the node's own functions)
func omegasRange() PVM.Omegas {
	om := omegas()
	om[PVM.ExportOp] = PVM.HostCallFunctions[PVM.ExportOp]
	om[100] = PVM.RefineOmegas[100]
	return om
}

func addition() PVM.HostCallArgs {
	return PVM.HostCallArgs{RefineArgs: PVM.RefineArgs{IntegratedPVMMap: PVM.IntegratedPVMMap{}}}
}

// classify the result of Psi_M: one of the defined outcomes, the halt output, the gas used
func classify(res PVM.Psi_M_ReturnType, limit uint64) (kind string, out []byte, g string) {
	switch v := res.ReasonOrBytes.(type) {
	case PVM.ExitReasonType:
		switch v {
		case PVM.PANIC:
			kind = "panic"
		case PVM.OUT_OF_GAS:
			kind = "oog"
		default:
			kind = fmt.Sprintf("UNDEF:reason%d", v)
		}
	case PVM.ExitReason: // a rejected blob comes back as the exit word itself
		switch v.GetReasonType() {
		case PVM.PANIC:
			kind = "panic"
		case PVM.OUT_OF_GAS:
			kind = "oog"
		default:
			kind = fmt.Sprintf("UNDEF:exit%d", uint64(v))
		}
	case nil:
		kind = "halt"
	case []byte:
		kind, out = "halt", v
	case types.ByteSequence:
		kind, out = "halt", v
	default:
		kind = fmt.Sprintf("UNDEF:%T", v)
	}
	used := uint64(res.Gas)
	if int64(res.Gas) >= 0 && used <= limit {
		g = "ok"
	} else {
		g = fmt.Sprintf("OVER:%d", int64(res.Gas))
	}
	return
}

func run(line string) string {
	t := strings.Fields(line)
	if len(t) < 3 {
		return "BADCASE"
	}
	switch t[0] {
	case "deblob":
		blob := withCap(h.UnHex(t[1]), h.I(t[2]))
		var prog PVM.Program
		var ex PVM.ExitReason
		r := measured(line, func() string {
			prog, ex = PVM.DeBlobProgramCode(blob)
			return ""
		})
		if r.out != "" {
			return r.out
		}
		if ex != PVM.ExitContinue {
			return fmt.Sprintf("rej a=%d", r.alloc)
		}
		return fmt.Sprintf("ok ni=%d nb=%d js=%d jl=%d jd=%d sb=%d a=%d", len(prog.Instrs), PVM.VerifC03Blocks(&prog),
			prog.JumpTable.Size, prog.JumpTable.Length, len(prog.JumpTable.Data), b01(hasSbrk(&prog)), r.alloc)

	case "djump":
		blob := h.UnHex(t[1])
		a := uint32(h.U(t[2]))
		return h.Guard(func() string {
			prog, ex := PVM.DeBlobProgramCode(blob)
			if ex != PVM.ExitContinue {
				return "rej"
			}
			e, pc := PVM.VerifC03Djump(&prog, a)
			switch e.GetReasonType() {
			case PVM.HALT:
				return "halt"
			case PVM.PANIC:
				return "panic"
			case PVM.CONTINUE:
				return fmt.Sprintf("go:%d", pc)
			}
			return fmt.Sprintf("UNDEF:%d", uint64(e))
		})

	case "init":
		if len(t) != 4 || h.I(t[2]) > maxArg {
			return "BADCASE"
		}
		blob := withCap(h.UnHex(t[1]), h.I(t[3]))
		arg := mkArg(h.I(t[2]))
		var c PVM.Instructions
		var mem PVM.Memory
		var ex PVM.ExitReason
		r := measured(line, func() string {
			c, _, mem, ex = PVM.SingleInitializer(blob, arg)
			return ""
		})
		if r.out != "" {
			return r.out
		}
		if ex != PVM.ExitContinue {
			return fmt.Sprintf("rej a=%d", r.alloc)
		}
		hp, hl := PVM.VerifHeap(&mem)
		s := fmt.Sprintf("ok c=%d pg=%d hp=%d hl=%d a=%d", len(c), len(mem.Pages), hp, hl, r.alloc)
		mem = PVM.Memory{}
		if r.alloc > 64<<20 {
			debug.FreeOSMemory()
		}
		return s

	case "psim":
		if len(t) != 4 || h.I(t[2]) > maxArg {
			return "BADCASE"
		}
		blob := h.UnHex(t[1])
		arg := mkArg(h.I(t[2]))
		limit := h.U(t[3])
		// programs containing sbrk are not run: one sbrk may map the whole free address space (C05 covers it)
		pre := h.Guard(func() string {
			c, _, _, _, _, err := PVM.DecodeSerializedValues(blob)
			if err != nil {
				return ""
			}
			prog, ex := PVM.DeBlobProgramCode(c)
			if ex == PVM.ExitContinue && hasSbrk(&prog) {
				return "skip-sbrk"
			}
			return ""
		})
		if pre != "" {
			return pre
		}
		om, ad := omegas(), addition()
		var res PVM.Psi_M_ReturnType
		r := measured(line, func() string {
			res = PVM.Psi_M(blob, 0, types.Gas(limit), arg, om, ad)
			return ""
		})
		if r.out != "" {
			return r.out
		}
		kind, _, g := classify(res, limit)
		if strings.HasPrefix(kind, "UNDEF") {
			return kind
		}
		res = PVM.Psi_M_ReturnType{}
		if r.alloc > 64<<20 {
			debug.FreeOSMemory()
		}
		return fmt.Sprintf("def k=%s g=%s a=%d", kind, g, r.alloc)

	case "mach":
		inner := h.UnHex(t[1])
		mem := PVM.VerifC03NewMemory()
		const base = 0x20000
		for off := 0; off < len(inner) || off == 0; off += zp {
			pg := make([]byte, zp)
			if off < len(inner) {
				copy(pg, inner[off:])
			}
			mem.Pages[uint32((base+off)/zp)] = &PVM.Page{Value: pg, Access: PVM.MemoryReadWrite}
		}
		var regs PVM.Registers
		regs[7], regs[8], regs[9] = base, uint64(len(inner)), h.U(t[2])
		gas := PVM.Gas(100)
		ad := addition()
		in := PVM.OmegaInput{Operation: PVM.MachineOp, VM: &PVM.VMState{Registers: &regs, Memory: mem, Gas: &gas}, Addition: ad}
		var out PVM.OmegaOutput
		r := measured(line, func() string {
			out = PVM.HostCallFunctions[PVM.MachineOp](in)
			return ""
		})
		if r.out != "" {
			return r.out
		}
		if out.ExitReason != PVM.ExitContinue {
			return fmt.Sprintf("UNDEF:exit%d", uint64(out.ExitReason))
		}
		return fmt.Sprintf("r7=%d n=%d a=%d", regs[7], len(out.Addition.IntegratedPVMMap), r.alloc)

	case "range":
		if len(t) != 5 {
			return "BADCASE"
		}
		blob := h.UnHex(t[4])
		om, ad := omegasRange(), addition()
		var res PVM.Psi_M_ReturnType
		r := measured(line, func() string {
			res = PVM.Psi_M(blob, 0, types.Gas(100), nil, om, ad)
			return ""
		})
		if r.out != "" {
			return r.out
		}
		kind, out, g := classify(res, 100)
		s := fmt.Sprintf("k=%s olen=%d g=%s a=%d", kind, len(out), g, r.alloc)
		res = PVM.Psi_M_ReturnType{}
		if r.alloc > 64<<20 {
			debug.FreeOSMemory()
		}
		return s

	case "refine":
		inner := h.UnHex(t[1])
		limit := h.U(t[2])
		blob := refineProgram(inner)
		om, ad := omegas(), addition()
		var res PVM.Psi_M_ReturnType
		r := measured(line, func() string {
			res = PVM.Psi_M(blob, 0, types.Gas(limit), nil, om, ad)
			return ""
		})
		if r.out != "" {
			return r.out
		}
		kind, out, g := classify(res, limit)
		return fmt.Sprintf("k=%s out=%s g=%s", kind, h.Hex(out), g)
	}
	return "BADCASE"
}

// ---------------------------------------------------------------- a small assembler

func le(v uint64, n int) []byte {
	b := make([]byte, n)
	for i := 0; i < n; i++ {
		b[i] = byte(v >> (8 * uint(i)))
	}
	return b
}

// encNat is the general natural-number encoding (C.6), written out here so that the generator does
// not depend on the code under test.
func encNat(x uint64) []byte {
	if x < 1<<7 {
		return []byte{byte(x)}
	}
	for l := 1; l < 8; l++ {
		if x < uint64(1)<<(7*uint(l+1)) {
			out := []byte{byte(256-(int(1)<<(8-uint(l)))) + byte(x>>(8*uint(l)))}
			return append(out, le(x, l)...)
		}
	}
	return append([]byte{0xFF}, le(x, 8)...)
}

type asm struct {
	code []byte
	mask []bool
}

func (a *asm) ins(b ...byte) int {
	pc := len(a.code)
	for i := range b {
		a.mask = append(a.mask, i == 0)
	}
	a.code = append(a.code, b...)
	return pc
}
func (a *asm) loadImm(reg byte, v uint32) { a.ins(append([]byte{51, reg}, le(uint64(v), 4)...)...) }
func (a *asm) halt()                      { a.ins(50, 0) } // jump_ind r0+0, r0 = 2^32-2^16
func (a *asm) loadImm64(reg byte, v uint64) { a.ins(append([]byte{20, reg}, le(v, 8)...)...) }

func (a *asm) maskBytes() []byte {
	mb := make([]byte, (len(a.code)+7)/8)
	for i, m := range a.mask {
		if m {
			mb[i/8] |= 1 << uint(i%8)
		}
	}
	return mb
}

// blob assembles E(|j|) E_1(z) E(|c|) E_z(j) c k
func (a *asm) blob(jt []uint32, z int) []byte {
	out := encNat(uint64(len(jt)))
	out = append(out, byte(z))
	out = append(out, encNat(uint64(len(a.code)))...)
	for _, e := range jt {
		out = append(out, le(uint64(e), z)...)
	}
	out = append(out, a.code...)
	return append(out, a.maskBytes()...)
}

func standard(o, w []byte, z uint16, s uint32, c []byte) []byte {
	var p []byte
	p = append(p, le(uint64(len(o)), 3)...)
	p = append(p, le(uint64(len(w)), 3)...)
	p = append(p, le(uint64(z), 2)...)
	p = append(p, le(uint64(s), 3)...)
	p = append(p, o...)
	p = append(p, w...)
	p = append(p, le(uint64(len(c)), 4)...)
	return append(p, c...)
}

func zRound(x int) int { return zz * ((x + zz - 1) / zz) }

// refineProgram: ω7..ω9 = (address, length, 0) of the inner blob in the read-only data, ecalli machine,
// store ω7 to the read-write data and halt with those 8 bytes as output.
func refineProgram(inner []byte) []byte {
	rw := uint32(2*zz + zRound(len(inner)))
	a := &asm{}
	a.loadImm(7, zz)
	a.loadImm(8, uint32(len(inner)))
	a.loadImm(9, 0)
	a.ins(10, byte(PVM.MachineOp))
	a.ins(append([]byte{62, 7}, le(uint64(rw), 4)...)...) // store_u64 [rw] = ω7
	a.loadImm(7, rw)
	a.loadImm(8, 8)
	a.halt()
	return standard(inner, make([]byte, 8), 0, 4096, a.blob(nil, 0))
}

// rangeProgram: 9 bytes of read-only data (page 16), 16 bytes of read-write data + one heap page (pages 48, 49), one
// stack page; the program loads the 64-bit pair (start, length) into the registers of the call and makes it.
func rangeProgram(call string, start, length uint64) []byte {
	ro := []byte{0x11, 0x22, 0x33, 0x44, 0x55, 0x66, 0x77, 0x88, 0x99}
	rwd := []byte{1, 2, 3, 4, 5, 6, 7, 8, 9, 10, 11, 12, 13, 14, 15, 16}
	a := &asm{}
	switch call {
	case "halt": // R (A.41) reads the output range from ω7, ω8
		a.loadImm64(7, start)
		a.loadImm64(8, length)
	case "log": // level 9: nothing is printed, the message range is still checked and read
		a.loadImm64(10, start)
		a.loadImm64(11, length)
		a.loadImm(7, 9)
		a.ins(10, 100)
	case "mach":
		a.loadImm64(7, start)
		a.loadImm64(8, length)
		a.ins(10, byte(PVM.MachineOp))
		a.loadImm(8, 0)
	case "export":
		a.loadImm64(7, start)
		a.loadImm64(8, length)
		a.ins(10, byte(PVM.ExportOp))
		a.loadImm(8, 0)
	default:
		panic("verifh: bad range call " + call)
	}
	a.halt()
	return standard(ro, rwd, 1, 4096, a.blob(nil, 0))
}

// ---------------------------------------------------------------- valid base programs

type base struct {
	name string
	code []byte // program blob (A.2)
	std  []byte // standard program blob (A.37) around it
}

func mkBase(name string, a *asm, jt []uint32, z int, o, w []byte, hz uint16, s uint32) base {
	c := a.blob(jt, z)
	return base{name, c, standard(o, w, hz, s, c)}
}

var validOps = func() []byte {
	var v []byte
	add := func(lo, hi int) {
		for o := lo; o <= hi; o++ {
			if o != 101 { // sbrk is left to C05
				v = append(v, byte(o))
			}
		}
	}
	add(0, 1)
	add(10, 10)
	add(20, 20)
	add(30, 33)
	add(40, 40)
	add(50, 62)
	add(70, 73)
	add(80, 90)
	add(100, 111)
	add(120, 161)
	add(170, 175)
	add(180, 180)
	add(190, 230)
	return v
}()

func bases(rng *h.Rng) []base {
	var bs []base
	ro := []byte{0x11, 0x22, 0x33, 0x44, 0x55, 0x66, 0x77, 0x88, 0x99}
	rwd := []byte{1, 2, 3, 4, 5, 6, 7, 8, 9, 10, 11, 12, 13, 14, 15, 16}
	rwAddr := uint32(2*zz + zRound(len(ro)))

	// arithmetic, then halt returning the argument (ω7, ω8 are still the argument zone)
	a := &asm{}
	a.loadImm(2, 5)
	a.loadImm(3, 7)
	a.ins(200, 0x32, 4) // add_64 r4 = r2 + r3
	a.ins(100, 0x49)    // move_reg r9 = r4
	a.halt()
	bs = append(bs, mkBase("arith", a, nil, 0, ro, rwd, 1, 4096))

	// a one-instruction loop: runs out of gas
	a = &asm{}
	a.ins(40, 0)
	bs = append(bs, mkBase("loop", a, nil, 0, nil, nil, 0, 0))

	// memory traffic, the gas host call, halt with 4 bytes of the read-write data
	a = &asm{}
	a.ins(append(append([]byte{32, 4}, le(uint64(rwAddr), 4)...), 0xEF, 0xBE, 0xAD, 0xDE)...) // store_imm_u32
	a.ins(append([]byte{52, 2}, le(zz, 4)...)...)                                                 // load_u8 r2 = [ZZ]
	a.ins(append([]byte{62, 2}, le(uint64(rwAddr+8), 4)...)...)                                   // store_u64
	a.ins(10, 0)                                                                                  // ecalli gas
	a.ins(10, 77)                                                                                 // ecalli unknown
	a.ins(append([]byte{20, 5}, le(0x1122334455667788, 8)...)...)                                 // load_imm_64
	a.ins(append([]byte{70, 0x11}, 0x04, 0x99)...)                                                // store_imm_ind_u8
	a.loadImm(7, rwAddr)
	a.loadImm(8, 4)
	a.halt()
	bs = append(bs, mkBase("mem", a, nil, 0, ro, rwd, 2, 8192))

	// dynamic jumps through a 2-entry table of width 2, branches, fallthrough, trap
	a = &asm{}
	a.loadImm(2, 4)            // a = 4 -> entry 1
	a.ins(50, 2)               // jump_ind r2
	t0 := a.ins(0)             // entry 0: trap
	t1 := a.ins(81, 0x12, 5)   // entry 1: branch_eq_imm r2, ... (lX=1)
	a.ins(1)                   // fallthrough
	a.ins(170, 0x32, 2)        // branch_eq r2 r3 +2
	a.ins(180, 0x10, 1, 0, 0)  // load_imm_jump_ind
	a.ins(0)
	bs = append(bs, mkBase("jt", a, []uint32{uint32(t0), uint32(t1)}, 2, nil, rwd, 0, 4096))

	// the refine program around a valid inner blob
	in := &asm{}
	in.ins(51, 1, 5)
	in.ins(0)
	inner := in.blob(nil, 0)
	rp := refineProgram(inner)
	c, _, _, _, _, err := PVM.DecodeSerializedValues(rp)
	if err != nil {
		panic("verifh: refine program does not parse")
	}
	bs = append(bs, base{"refine", c, rp})

	// random streams of defined opcodes with random operand bytes
	for k := 0; k < 6; k++ {
		a = &asm{}
		n := 3 + rng.Intn(20)
		for i := 0; i < n; i++ {
			op := validOps[rng.Intn(len(validOps))]
			nop := rng.Intn(7)
			if rng.Chance(1, 6) { // an over-long instruction: skip is clamped at 24 and the scan lands inside it
				nop = 23 + rng.Intn(12)
			}
			a.ins(append([]byte{op}, rng.Bytes(nop)...)...)
		}
		if rng.Bool() {
			a.halt()
		}
		var jt []uint32
		z := rng.Intn(4)
		for i := rng.Intn(4); i > 0; i-- {
			jt = append(jt, uint32(rng.Intn(len(a.code)+2)))
		}
		bs = append(bs, mkBase(fmt.Sprintf("rand%d", k), a, jt, z, rng.Bytes(rng.Intn(40)), rng.Bytes(rng.Intn(40)), uint16(rng.Intn(3)), uint32(rng.Intn(9000))))
	}
	return bs
}

// ---------------------------------------------------------------- generator

var hugeNats = []uint64{0, 1, 2, 3, 127, 128, 255, 256, 16383, 16384, 1 << 21, 1<<31 - 1, 1 << 31, 1<<32 - 1, 1 << 32, 1<<32 + 3,
	1 << 56, 1<<56 + 1, 1 << 62, 1 << 63, 1<<63 + 1, 0x5555555555555556, 0x5555555555555555, 0xAAAAAAAAAAAAAAAB, 1<<64 - 1}

// split a program blob into its declared fields (generator side only; a valid blob is assumed)
func splitCode(c []byte) (nj uint64, z byte, nc uint64, rest []byte) {
	rd := func() uint64 {
		p := c[0]
		if p < 0x80 {
			c = c[1:]
			return uint64(p)
		}
		l := 0
		for p&(0x80>>uint(l)) != 0 {
			l++
		}
		if l == 8 {
			v := uint64(0)
			for i := 0; i < 8; i++ {
				v |= uint64(c[1+i]) << (8 * uint(i))
			}
			c = c[9:]
			return v
		}
		v := uint64(p&(0xFF>>uint(l+1))) << (8 * uint(l))
		for i := 0; i < l; i++ {
			v |= uint64(c[1+i]) << (8 * uint(i))
		}
		c = c[1+l:]
		return v
	}
	nj = rd()
	z = c[0]
	c = c[1:]
	nc = rd()
	return nj, z, nc, c
}

func joinCode(nj uint64, z byte, nc uint64, rest []byte) []byte {
	out := encNat(nj)
	out = append(out, z)
	out = append(out, encNat(nc)...)
	return append(out, rest...)
}

func gen(rng *h.Rng, tier string, emit func(string)) {
	st := h.Stats{}
	scale := 1
	if tier == "thorough" {
		scale = 12
	}
	bs := bases(rng)
	gases := []uint64{0, 1, 2, 3, 5, 9, 10, 11, 12, 20, 50, 200, 1000, 20000}
	args := []int{0, 0, 1, 9, 4095, 4096, 4097, 65537}
	xcaps := []int{0, 0, 1, 8, 64}
	pickGas := func() uint64 { return gases[rng.Intn(len(gases))] }
	pickArg := func() int { return args[rng.Intn(len(args))] }
	pickCap := func() int { return xcaps[rng.Intn(len(xcaps))] }
	put := func(kind, s string) { st.Inc(kind); emit(s) }
	code := func(kind string, c []byte) {
		put("deblob-"+kind, fmt.Sprintf("deblob %s %d", h.Hex(c), pickCap()))
	}
	stdb := func(kind string, p []byte) {
		switch rng.Intn(3) {
		case 0:
			put("init-"+kind, fmt.Sprintf("init %s %d %d", h.Hex(p), pickArg(), pickCap()))
		default:
			put("psim-"+kind, fmt.Sprintf("psim %s %d %d", h.Hex(p), pickArg(), pickGas()))
		}
	}
	inner := func(kind string, c []byte) {
		if len(c) > 3000 {
			return
		}
		if rng.Bool() {
			put("mach-"+kind, fmt.Sprintf("mach %s %d", h.Hex(c), rng.Intn(50)))
		} else {
			put("refine-"+kind, fmt.Sprintf("refine %s %d", h.Hex(c), []uint64{5, 13, 14, 15, 30, 1000}[rng.Intn(6)]))
		}
	}
	wrap := func(b base, c []byte) []byte { // the standard blob of b around another program blob
		_, o, w, z, s, _ := PVM.DecodeSerializedValues(b.std)
		return standard(o, w, z, s, c)
	}

	for _, b := range bs {
		// the valid programs themselves, at every gas limit of the list
		code("valid", b.code)
		put("djump-valid", fmt.Sprintf("djump %s %d", h.Hex(b.code), 2*(1+rng.Intn(3))))
		for _, g := range gases {
			put("psim-valid", fmt.Sprintf("psim %s %d %d", h.Hex(b.std), pickArg(), g))
		}
		put("init-valid", fmt.Sprintf("init %s %d 0", h.Hex(b.std), pickArg()))
		inner("valid", b.code)

		// (a) every truncation
		for n := 0; n < len(b.code); n++ {
			code("trunc", b.code[:n])
			if n%3 == 0 {
				stdb("trunc-code", wrap(b, b.code[:n]))
				inner("trunc", b.code[:n])
			}
		}
		for n := 0; n < len(b.std); n++ {
			stdb("trunc", b.std[:n])
		}

		// (b) bit flips
		for i := 0; i < 400*scale; i++ {
			c := append([]byte{}, b.code...)
			for k := 1 + rng.Intn(3); k > 0; k-- {
				c[rng.Intn(len(c))] ^= 1 << uint(rng.Intn(8))
			}
			code("flip", c)
			if i%3 == 0 {
				stdb("flip-code", wrap(b, c))
			}
			if i%5 == 0 {
				inner("flip", c)
			}
			p := append([]byte{}, b.std...)
			for k := 1 + rng.Intn(3); k > 0; k-- {
				j := rng.Intn(len(p))
				// the high byte of z multiplies the heap by 256 pages: flipped rarely (size pre-check)
				if j == 7 && !rng.Chance(1, 20) {
					j = 6
				}
				p[j] ^= 1 << uint(rng.Intn(8))
			}
			stdb("flip", p)
		}

		// (c,d,e) length-field edits of the program blob: every field x every boundary value, and values around the real ones
		nj, z, nc, rest := splitCode(b.code)
		var vals []uint64
		vals = append(vals, hugeNats...)
		for d := -2; d <= 2; d++ {
			vals = append(vals, nj+uint64(d), nc+uint64(d), uint64(len(rest))+uint64(d), (nc+7)/8+uint64(d))
		}
		for _, v := range vals {
			code("edit-nj", joinCode(v, z, nc, rest))
			code("edit-nc", joinCode(nj, z, v, rest))
			code("edit-z", joinCode(nj, byte(v), nc, rest))
			code("edit-nj-z", joinCode(v, byte(rng.Intn(6)), nc, rest))
			if rng.Chance(1, 3) {
				stdb("edit-code", wrap(b, joinCode(nj, z, v, rest)))
				inner("edit", joinCode(v, byte(rng.Intn(6)), nc, rest))
			}
		}
		// dynamic-jump probes on edited tables
		for _, v := range append([]uint64{nj, nj + 1, 2, 0x5555555555555556, 1<<63 + 1, 1<<32 + 2}, hugeNats[rng.Intn(len(hugeNats))]) {
			for _, zv := range []byte{z, 0, 1, 2, 3, 4, 8} {
				c := joinCode(v, zv, nc, rest)
				for _, av := range []uint64{0, 1, 2, 3, 4, 6, 8, 2 * (v & 0xFFFFFFFF), 2*(v&0xFFFFFFFF) + 2, 0xffff0000, uint64(rng.Intn(40))} {
					put("djump-edit", fmt.Sprintf("djump %s %d", h.Hex(c), av&0xFFFFFFFF))
				}
			}
		}

		// length-field edits of the standard blob header (|o|, |w|, z, s) and of |c|
		_, o, w, hz, s, _ := PVM.DecodeSerializedValues(b.std)
		hdr := func(ol, wl, zv, sv, cl uint64) []byte {
			var p []byte
			p = append(p, le(ol, 3)...)
			p = append(p, le(wl, 3)...)
			p = append(p, le(zv, 2)...)
			p = append(p, le(sv, 3)...)
			p = append(p, o...)
			p = append(p, w...)
			p = append(p, le(cl, 4)...)
			return append(p, b.code...)
		}
		ol, wl, cl := uint64(len(o)), uint64(len(w)), uint64(len(b.code))
		small := []uint64{0, 1, 2, 4095, 4096, 4097, 65535, 65536, 65537, 1<<24 - 1}
		for _, v := range small {
			stdb("edit-o", hdr(v, wl, uint64(hz), uint64(s), cl))
			stdb("edit-w", hdr(ol, v, uint64(hz), uint64(s), cl))
			stdb("edit-s", hdr(ol, wl, uint64(hz), v, cl))
			stdb("edit-c", hdr(ol, wl, uint64(hz), uint64(s), v))
			stdb("edit-c", hdr(ol, wl, uint64(hz), uint64(s), 1<<32-1-v))
		}
		for d := -2; d <= 2; d++ {
			stdb("edit-o", hdr(ol+uint64(d), wl, uint64(hz), uint64(s), cl))
			stdb("edit-w", hdr(ol, wl+uint64(d), uint64(hz), uint64(s), cl))
			stdb("edit-c", hdr(ol, wl, uint64(hz), uint64(s), cl+uint64(d)))
			stdb("edit-ow", hdr(ol+uint64(d), wl-uint64(d), uint64(hz), uint64(s), cl))
		}
		for _, v := range []uint64{0, 1, 2, 3, 16, 255, 256} {
			stdb("edit-z", hdr(ol, wl, v, uint64(s), cl))
		}
		// appended garbage
		stdb("trailing", append(append([]byte{}, b.std...), rng.Bytes(1+rng.Intn(4))...))
		code("trailing", append(append([]byte{}, b.code...), rng.Bytes(1+rng.Intn(4))...))
	}

	// (f) random bytes
	for i := 0; i < 8000*scale; i++ {
		c := rng.Bytes(rng.Intn(40))
		if len(c) > 2 && rng.Bool() {
			c[0] = byte(rng.Intn(4)) // a small table so that the rest is looked at
			c[1] = byte(rng.Intn(5))
			c[2] = byte(rng.Intn(len(c)))
		}
		code("random", c)
		if i%4 == 0 {
			inner("random", c)
		}
	}
	for i := 0; i < 4000*scale; i++ {
		p := rng.Bytes(rng.Intn(60))
		if len(p) > 11 && rng.Chance(3, 4) { // plausible header
			copy(p, le(uint64(rng.Intn(12)), 3))
			copy(p[3:], le(uint64(rng.Intn(12)), 3))
			copy(p[6:], le(uint64(rng.Intn(3)), 2))
			copy(p[8:], le(uint64(rng.Intn(9000)), 3))
		}
		stdb("random", p)
	}

	// (l) pointer/length register pairs at the 64-bit and 32-bit wrap boundaries, for the halt output and for host calls
	{
		starts := []uint64{0, 1, 0x3000, 0xFFFF, 0x10000, 0x10008, 0x10FFF, 0x11000, 0x30000, 0x3000F, 0x30FFF, 0x31000, 0x31FFF, 0x32000,
			0xFEFDF000, 0xFEFDFFFF, 0xFEFE0000, 1<<32 - 4096, 1<<32 - 1, 1 << 32, 1<<32 + 1, 1 << 63, 1<<63 + 0x1000, 1<<64 - 0x3000,
			1<<64 - 0x1000, 1<<64 - 2, 1<<64 - 1}
		lens := []uint64{0, 1, 2, 9, 16, 4095, 4096, 4097, 8192, 8193, 1<<32 - 1, 1 << 32, 1<<32 + 1, 1 << 63, 1<<63 + 0x1000, 1<<64 - 0x3000,
			1<<64 - 0x1000, 1<<64 - 1}
		calls := []string{"halt", "log", "mach", "export"}
		emitR := func(call string, st0, ln uint64) {
			put("range-"+call, fmt.Sprintf("range %s %d %d %s", call, st0, ln, h.Hex(rangeProgram(call, st0, ln))))
		}
		for _, st0 := range starts {
			var ls []uint64
			ls = append(ls, lens...)
			// lengths that make start+length hit 2^64 (= 0 after the wrap), 2^64 +- 1, 2^64 + a page, 2^32, 2^32 +- 1
			for _, d := range []uint64{0, 1, ^uint64(0), 0x1000, 0x2000, 0x31000, 1 << 32} {
				ls = append(ls, -st0+d)
			}
			for _, d := range []uint64{0, 1, ^uint64(0)} {
				ls = append(ls, 1<<32-st0+d)
			}
			for _, ln := range ls {
				for _, c := range calls {
					if c == "halt" || rng.Chance(1, 2) {
						emitR(c, st0, ln)
					}
				}
			}
		}
		for i := 0; i < 600*scale; i++ {
			st0, ln := rng.U64(), rng.U64()
			switch rng.Intn(4) {
			case 0:
				ln = -st0 + uint64(rng.Intn(0x40000))
			case 1:
				st0 = uint64(rng.Intn(0x40000))
				ln = uint64(rng.Intn(0x3000))
			case 2:
				st0 = 0x30000 + uint64(rng.Intn(0x2000))
				ln = uint64(rng.Intn(0x2100))
			}
			emitR(calls[rng.Intn(len(calls))], st0, ln)
		}
	}

	// (j,k) the large declared sizes, a few of each (each costs up to some hundred MiB)
	b0 := bs[0]
	_, o, w, _, _, _ := PVM.DecodeSerializedValues(b0.std)
	bigz := []uint16{255, 4096}
	bigarg := []int{zi, zi + 1, zi + zz - zp + 1}
	if tier == "thorough" {
		bigz = append(bigz, 20000, 65535)
		bigarg = append(bigarg, zi-1, zi+zz-zp, zi+zz-1, zi+zz, zi+zz+1)
		put("big-z", fmt.Sprintf("psim %s 0 100", h.Hex(standard(o, w, 20000, 4096, b0.code))))
		put("big-arg", fmt.Sprintf("psim %s %d 100", h.Hex(b0.std), zi))
	}
	for _, zv := range bigz {
		put("big-z", fmt.Sprintf("init %s 0 0", h.Hex(standard(o, w, zv, 4096, b0.code))))
	}
	put("big-s", fmt.Sprintf("init %s 0 0", h.Hex(standard(o, w, 1, 1<<24-1, b0.code))))
	put("big-s", fmt.Sprintf("psim %s 5 100", h.Hex(standard(o, w, 1, 1<<24-1, b0.code))))
	for _, al := range bigarg {
		put("big-arg", fmt.Sprintf("init %s %d 0", h.Hex(b0.std), al))
	}
	put("big-arg", fmt.Sprintf("psim %s %d 100", h.Hex(b0.std), zi+zz-zp+1))

	h.EmitStats(emit, st)
}

func main() {
	debug.SetMemoryLimit(3 << 30)
	runtime.GOMAXPROCS(1) // one P: ReadMemStats is cheap and nothing else allocates while a case is measured
	if len(os.Args) >= 2 && os.Args[1] == "run" {
		// own loop (not verifh.Main): results are flushed so that an abort keeps what was done
		// the repository's logger prints to stdout: keep the protocol on the original stdout and
		// point file descriptor 1 at stderr (as verifh.Main does)
		fd := os.Stdout
		if d, err := syscall.Dup(1); err == nil && syscall.Dup2(2, 1) == nil {
			fd = os.NewFile(uintptr(d), "protocol-out")
		}
		protoOut = bufio.NewWriterSize(fd, 1<<20)
		defer protoOut.Flush()
		sc := bufio.NewScanner(os.Stdin)
		sc.Buffer(make([]byte, 1<<20), 1<<28)
		for sc.Scan() {
			line := sc.Text()
			if line == "" || line[0] == '#' {
				continue
			}
			if i := strings.Index(line, " | "); i >= 0 {
				line = line[:i]
			}
			out := h.Guard(func() string { return run(line) })
			protoOut.WriteString(line)
			protoOut.WriteString(" | ")
			protoOut.WriteString(out)
			protoOut.WriteByte('\n')
		}
		return
	}
	h.Main(gen, run)
}
