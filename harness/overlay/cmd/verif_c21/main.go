//go:build verif

// C21 harness: accumulation queue selection and ordering (GP 12.1-12.2) on the real code:
// ProcessAccumulation (UpdateImmediatelyAccumulateWorkReports, UpdateQueuedWorkReports,
// UpdateAccumulatableWorkReports -> QueueEditingFunction, AccumulationPriorityQueue), updateXi,
// updateVartheta, driven through the blockchain singleton exactly as accumulation_test.go does,
// and the upstream guard GuaranteeController.ValidateWorkPackageHashes (GP 11.38).
//
// Hashes are short hex labels, zero-padded to 32 bytes. Sets (xi entries, dependency sets) are
// printed sorted and de-duplicated; sequences (W*, queue groups) in order.
//
//	blk <E> <tau> <slot> <cut> <xi> <theta> <avail>
//	     xi    = group/group/...      group = - | h,h,...
//	     theta = group/group/...      group = - | rec;rec;...    rec = h.id:deps   deps = - | h,h,...
//	     avail = - | rep;rep;...      rep = h.id:prereqs:lookups
//	     n (reports accumulated) = |W*| - min(cut,|W*|)
//	  -> W=<h.id,...> X=<xi'> T=<theta'> re=<a>+<b> qb=<k>
//	     a/b = entries of W! / of the queue part of W* whose hash is in the prior accumulated history
//	     k   = entries of theta' that are in the new accumulated history or carry such a dependency
//	hist <E> <tau0> <xi> <theta> <nblocks> {<slot> <cut> <avail>}*
//	  -> per block "W=.. re=.. qb=.. S=<fnv32 of that block's X=.. T=..>" joined by " ; ", then X= T= of
//	     the last block; everything is re-read from the retained Go values after the last block
//	guard <xi> <theta> <rho> <beta> <g>          -> dup | ok
package main

import (
	"fmt"
	"hash/fnv"
	"sort"
	"strings"

	"github.com/New-JAMneration/JAM-Protocol/internal/accumulation"
	"github.com/New-JAMneration/JAM-Protocol/internal/blockchain"
	"github.com/New-JAMneration/JAM-Protocol/internal/extrinsic"
	"github.com/New-JAMneration/JAM-Protocol/internal/types"
	reportserr "github.com/New-JAMneration/JAM-Protocol/internal/types/error_codes/reports"
	h "github.com/New-JAMneration/JAM-Protocol/internal/verifh"
	"github.com/New-JAMneration/JAM-Protocol/logger"
)

// ------------------------------------------------------------------------------------------------
// case representation and text format

type rec struct {
	h    string
	id   uint64
	deps []string
}
type rep struct {
	h         string
	id        uint64
	pre, look []string
}
type blockIn struct {
	slot  uint32
	cut   int
	avail []rep
}

func joinOr(l []string, sep string) string {
	if len(l) == 0 {
		return "-"
	}
	return strings.Join(l, sep)
}
func splitOr(s, sep string) []string {
	if s == "-" || s == "" {
		return nil
	}
	return strings.Split(s, sep)
}

func fmtXi(xi [][]string) string {
	g := make([]string, len(xi))
	for i, x := range xi {
		g[i] = joinOr(x, ",")
	}
	return strings.Join(g, "/")
}
func fmtTheta(th [][]rec) string {
	g := make([]string, len(th))
	for i, grp := range th {
		rs := make([]string, len(grp))
		for j, r := range grp {
			rs[j] = fmt.Sprintf("%s.%d:%s", r.h, r.id, joinOr(r.deps, ","))
		}
		g[i] = joinOr(rs, ";")
	}
	return strings.Join(g, "/")
}
func fmtAvail(av []rep) string {
	rs := make([]string, len(av))
	for j, r := range av {
		rs[j] = fmt.Sprintf("%s.%d:%s:%s", r.h, r.id, joinOr(r.pre, ","), joinOr(r.look, ","))
	}
	return joinOr(rs, ";")
}

func parseHI(s string) (string, uint64) {
	p := strings.Split(s, ".")
	if len(p) != 2 {
		panic("verifh: bad hash.id token " + s)
	}
	return p[0], h.U(p[1])
}
func parseXi(s string) [][]string {
	gs := strings.Split(s, "/")
	out := make([][]string, len(gs))
	for i, g := range gs {
		out[i] = splitOr(g, ",")
	}
	return out
}
func parseTheta(s string) [][]rec {
	gs := strings.Split(s, "/")
	out := make([][]rec, len(gs))
	for i, g := range gs {
		for _, r := range splitOr(g, ";") {
			p := strings.Split(r, ":")
			if len(p) != 2 {
				panic("verifh: bad record token " + r)
			}
			hh, id := parseHI(p[0])
			out[i] = append(out[i], rec{hh, id, splitOr(p[1], ",")})
		}
	}
	return out
}
func parseAvail(s string) []rep {
	var out []rep
	for _, r := range splitOr(s, ";") {
		p := strings.Split(r, ":")
		if len(p) != 3 {
			panic("verifh: bad report token " + r)
		}
		hh, id := parseHI(p[0])
		out = append(out, rep{hh, id, splitOr(p[1], ","), splitOr(p[2], ",")})
	}
	return out
}

// ------------------------------------------------------------------------------------------------
// Go values

func mkHash(label string) (out types.WorkPackageHash) {
	copy(out[:], h.UnHex(label))
	return out
}
func label(x [32]byte) string {
	n := 32
	for n > 0 && x[n-1] == 0 {
		n--
	}
	return h.Hex(x[:n])
}

func mkReport(hh string, id uint64, pre, look []string) types.WorkReport {
	w := types.WorkReport{}
	w.PackageSpec.Hash = mkHash(hh)
	w.AuthGasUsed = types.Gas(id) // identity tag of the report (distinguishes reports with one package hash)
	for _, p := range pre {
		w.Context.Prerequisites = append(w.Context.Prerequisites, types.OpaqueHash(mkHash(p)))
	}
	for i, l := range look {
		w.SegmentRootLookup = append(w.SegmentRootLookup, types.SegmentRootLookupItem{
			WorkPackageHash: mkHash(l), SegmentTreeRoot: types.OpaqueHash{byte(i + 1)}})
	}
	return w
}
func mkXi(xi [][]string) types.AccumulatedQueue {
	out := make(types.AccumulatedQueue, len(xi))
	for i, g := range xi {
		out[i] = types.AccumulatedQueueItem{}
		for _, x := range g {
			out[i] = append(out[i], mkHash(x))
		}
	}
	return out
}
func mkTheta(th [][]rec) types.ReadyQueue {
	out := make(types.ReadyQueue, len(th))
	for i, g := range th {
		out[i] = types.ReadyQueueItem{}
		for _, r := range g {
			rr := types.ReadyRecord{Report: mkReport(r.h, r.id, r.deps, nil)}
			for _, d := range r.deps {
				rr.Dependencies = append(rr.Dependencies, mkHash(d))
			}
			out[i] = append(out[i], rr)
		}
	}
	return out
}
func mkAvail(av []rep) []types.WorkReport {
	out := []types.WorkReport{}
	for _, r := range av {
		out = append(out, mkReport(r.h, r.id, r.pre, r.look))
	}
	return out
}

func setOf(l []types.WorkPackageHash) string {
	m := map[string]bool{}
	for _, x := range l {
		m[label(x)] = true
	}
	s := make([]string, 0, len(m))
	for k := range m {
		s = append(s, k)
	}
	sort.Strings(s)
	return joinOr(s, ",")
}
func outW(w []types.WorkReport) string {
	s := make([]string, len(w))
	for i, r := range w {
		s[i] = fmt.Sprintf("%s.%d", label(r.PackageSpec.Hash), uint64(r.AuthGasUsed))
	}
	return joinOr(s, ",")
}
func outXi(xi types.AccumulatedQueue) string {
	g := make([]string, len(xi))
	for i, x := range xi {
		g[i] = setOf(x)
	}
	return strings.Join(g, "/")
}
func outTheta(th types.ReadyQueue) string {
	g := make([]string, len(th))
	for i, grp := range th {
		rs := make([]string, len(grp))
		for j, r := range grp {
			rs[j] = fmt.Sprintf("%s.%d:%s", label(r.Report.PackageSpec.Hash), uint64(r.Report.AuthGasUsed), setOf(r.Dependencies))
		}
		g[i] = joinOr(rs, ";")
	}
	return strings.Join(g, "/")
}
func unionXi(xi types.AccumulatedQueue) map[types.WorkPackageHash]bool {
	m := map[types.WorkPackageHash]bool{}
	for _, g := range xi {
		for _, x := range g {
			m[x] = true
		}
	}
	return m
}
func countBad(th types.ReadyQueue, xi types.AccumulatedQueue) int {
	acc := unionXi(xi)
	k := 0
	for _, g := range th {
		for _, r := range g {
			bad := acc[r.Report.PackageSpec.Hash]
			for _, d := range r.Dependencies {
				bad = bad || acc[d]
			}
			if bad {
				k++
			}
		}
	}
	return k
}

// ------------------------------------------------------------------------------------------------
// driving the real code

var inited bool

func initOnce() {
	if !inited {
		logger.Disable()
		blockchain.ResetInstance()
		inited = true
	}
}

type blockOut struct {
	w      []types.WorkReport
	nbang  int
	re0    int
	re1    int
	qb     int
	postXi types.AccumulatedQueue
	postTh types.ReadyQueue
}

func setPrior(E int, tau uint32, xi types.AccumulatedQueue, theta types.ReadyQueue) {
	types.EpochLength = E
	cs := blockchain.GetInstance()
	cs.GetPriorStates().SetXi(xi)
	cs.GetPriorStates().SetVartheta(theta)
	cs.GetPriorStates().SetTau(types.TimeSlot(tau))
	// a fresh posterior state, as StateCommit leaves it (NewPosteriorStates)
	cs.GetPosteriorStates().SetXi(make(types.AccumulatedQueue, E))
	cs.GetPosteriorStates().SetVartheta(make([]types.ReadyQueueItem, E))
}

// one block: 12.4-12.12 through ProcessAccumulation, then 12.31-12.33
func runBlock(b blockIn) blockOut {
	cs := blockchain.GetInstance()
	acc := unionXi(cs.GetPriorStates().GetXi())
	cs.VerifC21SetLatestHeader(types.Header{Slot: types.TimeSlot(b.slot)})
	cs.GetPosteriorStates().SetTau(types.TimeSlot(b.slot))
	cs.GetIntermediateStates().SetAvailableWorkReports(mkAvail(b.avail))
	if err := accumulation.ProcessAccumulation(); err != nil {
		panic("verifh: ProcessAccumulation error")
	}
	o := blockOut{}
	o.w = cs.GetIntermediateStates().GetAccumulatableWorkReports()
	o.nbang = len(cs.GetIntermediateStates().GetAccumulatedWorkReports())
	for i, r := range o.w {
		if acc[r.PackageSpec.Hash] {
			if i < o.nbang {
				o.re0++
			} else {
				o.re1++
			}
		}
	}
	n := len(o.w)
	if b.cut < n {
		n -= b.cut
	} else {
		n = 0
	}
	accumulation.VerifC21UpdateXi(cs, types.U64(n))
	accumulation.VerifC21UpdateVartheta(cs)
	o.postXi = cs.GetPosteriorStates().GetXi()
	o.postTh = cs.GetPosteriorStates().GetVartheta()
	o.qb = countBad(o.postTh, o.postXi)
	return o
}

// what StateCommit does for these components: posterior becomes prior (same slices), posterior is fresh
func commit(E int) {
	cs := blockchain.GetInstance()
	cs.GetPriorStates().SetXi(cs.GetPosteriorStates().GetXi())
	cs.GetPriorStates().SetVartheta(cs.GetPosteriorStates().GetVartheta())
	cs.GetPriorStates().SetTau(cs.GetPosteriorStates().GetTau())
	cs.GetPosteriorStates().SetXi(make(types.AccumulatedQueue, E))
	cs.GetPosteriorStates().SetVartheta(make([]types.ReadyQueueItem, E))
}

func fnv32(s string) uint32 {
	f := fnv.New32a()
	f.Write([]byte(s))
	return f.Sum32()
}

func run(input string) string {
	initOnce()
	f := strings.Fields(input)
	switch f[0] {
	case "blk":
		E := h.I(f[1])
		setPrior(E, uint32(h.U(f[2])), mkXi(parseXi(f[5])), mkTheta(parseTheta(f[6])))
		o := runBlock(blockIn{uint32(h.U(f[3])), h.I(f[4]), parseAvail(f[7])})
		return fmt.Sprintf("W=%s X=%s T=%s re=%d+%d qb=%d", outW(o.w), outXi(o.postXi), outTheta(o.postTh), o.re0, o.re1, o.qb)
	case "hist":
		E := h.I(f[1])
		setPrior(E, uint32(h.U(f[2])), mkXi(parseXi(f[3])), mkTheta(parseTheta(f[4])))
		nb := h.I(f[5])
		outs := make([]blockOut, 0, nb)
		for i := 0; i < nb; i++ {
			if i > 0 {
				commit(E)
			}
			outs = append(outs, runBlock(blockIn{uint32(h.U(f[6+3*i])), h.I(f[7+3*i]), parseAvail(f[8+3*i])}))
		}
		// re-read every retained value only now
		parts := []string{}
		last := ""
		for _, o := range outs {
			last = fmt.Sprintf("X=%s T=%s", outXi(o.postXi), outTheta(o.postTh))
			parts = append(parts, fmt.Sprintf("W=%s re=%d+%d qb=%d S=%d", outW(o.w), o.re0, o.re1, o.qb, fnv32(last)))
		}
		parts = append(parts, last)
		return strings.Join(parts, " ; ")
	case "guard":
		cs := blockchain.GetInstance()
		cs.GetPriorStates().SetXi(mkXi(parseXi(f[1])))
		cs.GetPriorStates().SetVartheta(mkTheta(parseTheta(f[2])))
		rho := types.AvailabilityAssignments{}
		for _, x := range splitOr(f[3], ",") {
			rho = append(rho, &types.AvailabilityAssignment{Report: mkReport(x, 0, nil, nil)})
			rho = append(rho, nil)
		}
		cs.GetPriorStates().SetRho(rho)
		beta := types.RecentBlocks{}
		for i, x := range splitOr(f[4], ",") {
			if i%2 == 0 {
				beta.History = append(beta.History, types.BlockInfo{})
			}
			bi := &beta.History[len(beta.History)-1]
			bi.Reported = append(bi.Reported, types.ReportedWorkPackage{Hash: types.WorkReportHash(mkHash(x))})
		}
		cs.GetPriorStates().SetBeta(beta)
		g := extrinsic.NewGuaranteeController()
		for _, x := range splitOr(f[5], ",") {
			g.Guarantees = append(g.Guarantees, types.ReportGuarantee{Report: mkReport(x, 0, nil, nil)})
		}
		err := g.ValidateWorkPackageHashes()
		if err == nil {
			return "ok"
		}
		if ec, ok := err.(*types.ErrorCode); ok && *ec == reportserr.DuplicatePackage {
			return "dup"
		}
		return "err"
	}
	return "BADCASE"
}

// ------------------------------------------------------------------------------------------------
// generation

var epochChoices = []int{1, 2, 3, 3, 4, 4, 6, 12, 12}

func pickGap(rng *h.Rng, E int) uint32 {
	switch rng.Intn(12) {
	case 0, 1, 2, 3, 4, 5:
		return 1
	case 6, 7:
		return 2
	case 8:
		return 3
	case 9:
		if E > 1 {
			return uint32(E - 1)
		}
		return 1
	case 10:
		return uint32(E)
	default:
		return uint32(E + 1 + rng.Intn(2*E+3))
	}
}
func pickTau(rng *h.Rng) uint32 {
	switch rng.Intn(8) {
	case 0:
		return uint32(rng.Intn(4))
	case 1:
		return uint32(4294967295 - 2000 - rng.Intn(1000)) // slots close to 2^32
	default:
		return uint32(rng.Intn(100000))
	}
}
func pickCut(rng *h.Rng) int {
	if rng.Chance(3, 4) {
		return 0
	}
	return 1 + rng.Intn(3)
}

// split a dependency list into prerequisites and segment-root lookup keys
func splitDeps(rng *h.Rng, deps []string) (pre, look []string) {
	for _, d := range deps {
		switch rng.Intn(8) {
		case 0, 1, 2, 3:
			pre = append(pre, d)
		case 4, 5, 6:
			look = append(look, d)
		default:
			pre = append(pre, d)
			look = append(look, d)
		}
	}
	return
}

type gnode struct {
	h    string
	deps []string
}

// place the reports of one graph into a block case. mode 0: reachable state (queue invariant holds)
// and fresh available reports; 1: invariant holds, available reports may already be in xi;
// 2: arbitrary state. placement 0: all available, 1: all queued, 2: mixed.
func blockCase(rng *h.Rng, st h.Stats, nodes []gnode, placement, mode, E int, extIn []string, tag string) string {
	inTheta := make([]bool, len(nodes))
	for i := range nodes {
		switch placement {
		case 0:
		case 1:
			inTheta[i] = true
		default:
			inTheta[i] = rng.Bool()
		}
	}
	// labels that may enter xi
	block := map[string]bool{}
	if mode <= 1 {
		for i, nd := range nodes {
			if inTheta[i] {
				block[nd.h] = true
				for _, d := range nd.deps {
					block[d] = true
				}
			} else if mode == 0 {
				block[nd.h] = true
			}
		}
	}
	xi := make([][]string, E)
	cands := append([]string{}, extIn...)
	seen := map[string]bool{}
	for _, nd := range nodes {
		if !seen[nd.h] {
			seen[nd.h] = true
			if rng.Chance(1, 3) {
				cands = append(cands, nd.h)
			}
		}
	}
	inxi := 0
	for _, c := range cands {
		if !block[c] {
			k := rng.Intn(E)
			xi[k] = append(xi[k], c)
			inxi++
			if rng.Chance(1, 10) { // the same hash in two history entries
				k2 := rng.Intn(E)
				xi[k2] = append(xi[k2], c)
			}
		}
	}
	theta := make([][]rec, E)
	var avail []rep
	for i, nd := range nodes {
		if inTheta[i] {
			k := rng.Intn(E)
			theta[k] = append(theta[k], rec{nd.h, uint64(i + 1), nd.deps})
		} else {
			pre, look := splitDeps(rng, nd.deps)
			avail = append(avail, rep{nd.h, uint64(i + 1), pre, look})
		}
	}
	tau := pickTau(rng)
	gap := pickGap(rng, E)
	st.Inc(fmt.Sprintf("%s-mode%d", tag, mode))
	st.Inc(fmt.Sprintf("%s-placement%d", tag, placement))
	if gap == 1 {
		st.Inc("gap-1")
	} else if int(gap) < E {
		st.Inc("gap-inside-epoch")
	} else {
		st.Inc("gap-epoch-or-more")
	}
	if inxi > 0 {
		st.Inc("xi-nonempty")
	}
	return fmt.Sprintf("blk %d %d %d %d %s %s %s", E, tau, tau+gap, pickCut(rng), fmtXi(xi), fmtTheta(theta), fmtAvail(avail))
}

func pickMode(rng *h.Rng) int {
	switch rng.Intn(4) {
	case 0, 1:
		return 0
	case 2:
		return 1
	default:
		return 2
	}
}

// the graph of one "shape": part[i] = hash label index of report i, dmask[i] = bitmask of label
// indices report i depends on; optional dependencies on external labels
func shapeNodes(rng *h.Rng, part []int, dmask []int, b int, withExt bool) []gnode {
	nodes := make([]gnode, len(part))
	for i := range part {
		nd := gnode{h: fmt.Sprintf("%02x", part[i]+1)}
		for k := 0; k < b; k++ {
			if dmask[i]>>uint(k)&1 == 1 {
				nd.deps = append(nd.deps, fmt.Sprintf("%02x", k+1))
			}
		}
		if withExt {
			if rng.Chance(1, 6) {
				nd.deps = append(nd.deps, "e1") // never a report, never accumulated
			}
			if rng.Chance(1, 4) {
				nd.deps = append(nd.deps, "e2") // accumulated earlier (when the mode allows it)
			}
			if rng.Chance(1, 8) {
				nd.deps = append(nd.deps, "e3")
			}
		}
		nodes[i] = nd
	}
	return nodes
}

// all restricted-growth strings of length n (set partitions = assignments of package hashes)
func partitions(n int, f func(part []int, b int)) {
	part := make([]int, n)
	var rec func(i, mx int)
	rec = func(i, mx int) {
		if i == n {
			f(part, mx+1)
			return
		}
		for v := 0; v <= mx+1; v++ {
			part[i] = v
			nm := mx
			if v > mx {
				nm = v
			}
			rec(i+1, nm)
		}
	}
	if n == 0 {
		f(part, 0)
		return
	}
	rec(0, -1)
}

func gen(rng *h.Rng, tier string, emit func(string)) {
	st := h.Stats{}
	thorough := tier == "thorough"
	variants := 3
	if thorough {
		variants = 8
	}
	// ---- (1) every dependency graph on up to 4 reports
	emitShape := func(part []int, dmask []int, b int, v int) {
		// variant 0/1: the bare graph, all available / all queued, nothing else in play
		placement := v
		if placement > 2 {
			placement = 2
		}
		mode := 0
		withExt := v >= 2
		if v >= 2 {
			mode = pickMode(rng)
		}
		E := epochChoices[rng.Intn(len(epochChoices))]
		nodes := shapeNodes(rng, part, dmask, b, withExt)
		emit(blockCase(rng, st, nodes, placement, mode, E, []string{"e2", "e3"}, "graph"))
	}
	for n := 0; n <= 4; n++ {
		partitions(n, func(part []int, b int) {
			total := 1
			for i := 0; i < n; i++ {
				total *= 1 << uint(b)
			}
			sample := !thorough && n == 4 && b >= 3
			dmask := make([]int, n)
			for c := 0; c < total; c++ {
				x := c
				for i := 0; i < n; i++ {
					dmask[i] = x & (1<<uint(b) - 1)
					x >>= uint(b)
				}
				if sample {
					// quick tier: a fixed-rate sample of the 4-report graphs with >= 3 distinct hashes
					if !rng.Chance(1, 4) {
						continue
					}
					st.Inc("graphs-4-sampled")
					emitShape(part, dmask, b, rng.Intn(6))
					continue
				}
				st.Inc(fmt.Sprintf("graphs-%d-exhaustive", n))
				for v := 0; v < variants; v++ {
					emitShape(part, dmask, b, v)
				}
			}
		})
	}
	// ---- (2) random larger graphs
	nlarge := 3000
	if thorough {
		nlarge = 100000
	}
	for c := 0; c < nlarge; c++ {
		n := 5 + rng.Intn(36)
		if rng.Chance(1, 20) {
			n = 60 + rng.Intn(60)
		}
		nodes := make([]gnode, n)
		for i := 0; i < n; i++ {
			lab := fmt.Sprintf("%02x", i+1)
			if i > 0 && rng.Chance(1, 12) {
				lab = nodes[rng.Intn(i)].h // duplicate package hash
			}
			nd := gnode{h: lab}
			k := []int{0, 0, 1, 1, 1, 2, 2, 3, 5}[rng.Intn(9)]
			for j := 0; j < k; j++ {
				switch {
				case rng.Chance(1, 10):
					nd.deps = append(nd.deps, []string{"e1", "e2", "e3"}[rng.Intn(3)])
				case rng.Chance(1, 8) || i == 0:
					nd.deps = append(nd.deps, fmt.Sprintf("%02x", 1+rng.Intn(n))) // anywhere: cycles, self
				case rng.Chance(1, 2):
					nd.deps = append(nd.deps, nodes[i-1].h) // chains
				default:
					nd.deps = append(nd.deps, nodes[rng.Intn(i)].h)
				}
			}
			nodes[i] = nd
		}
		// shuffle the presentation order so that chains are not fed in dependency order
		for i := n - 1; i > 0; i-- {
			j := rng.Intn(i + 1)
			nodes[i], nodes[j] = nodes[j], nodes[i]
		}
		E := []int{3, 4, 6, 12, 12, 12, 24}[rng.Intn(7)]
		emit(blockCase(rng, st, nodes, rng.Intn(3), pickMode(rng), E, []string{"e2", "e3"}, "large"))
	}
	// ---- (3) multi-block histories
	nhist := 4000
	if thorough {
		nhist = 150000
	}
	for c := 0; c < nhist; c++ {
		E := []int{2, 3, 4, 6, 12, 12}[rng.Intn(6)]
		dirty := rng.Chance(1, 5) // hashes are re-used: the upstream guarantee is violated on purpose
		if dirty {
			st.Inc("hist-dirty")
		} else {
			st.Inc("hist-clean")
		}
		xi := make([][]string, E)
		nx := rng.Intn(4)
		for i := 0; i < nx; i++ {
			k := rng.Intn(E)
			xi[k] = append(xi[k], fmt.Sprintf("f%x", rng.Intn(4)))
		}
		theta := make([][]rec, E)
		if rng.Chance(1, 3) {
			nq := 1 + rng.Intn(3)
			for i := 0; i < nq; i++ {
				k := rng.Intn(E)
				r := rec{h: fmt.Sprintf("d%x", i), id: uint64(200 + i)}
				nd := rng.Intn(3)
				for j := 0; j < nd; j++ {
					r.deps = append(r.deps, []string{"e1", fmt.Sprintf("%02x", 1+rng.Intn(12)), fmt.Sprintf("d%x", rng.Intn(3))}[rng.Intn(3)])
				}
				theta[k] = append(theta[k], r)
			}
			st.Inc("hist-initial-queue")
		}
		tau := pickTau(rng)
		nb := 2 + rng.Intn(9)
		next := 1
		sb := strings.Builder{}
		fmt.Fprintf(&sb, "hist %d %d %s %s %d", E, tau, fmtXi(xi), fmtTheta(theta), nb)
		slot := tau
		for bi := 0; bi < nb; bi++ {
			gap := pickGap(rng, E)
			slot += gap
			if gap > 1 {
				st.Inc("hist-block-with-gap")
			}
			nrep := []int{0, 1, 1, 2, 2, 3, 4}[rng.Intn(7)]
			first := next
			var avail []rep
			for i := 0; i < nrep; i++ {
				lab := fmt.Sprintf("%02x", next)
				id := uint64(next)
				next++
				if dirty && first > 1 && rng.Chance(1, 4) {
					lab = fmt.Sprintf("%02x", 1+rng.Intn(first-1))
				}
				var deps []string
				k := []int{0, 0, 1, 1, 2, 3}[rng.Intn(6)]
				for j := 0; j < k; j++ {
					switch rng.Intn(10) {
					case 0:
						deps = append(deps, "e1") // never satisfied
					case 1:
						deps = append(deps, fmt.Sprintf("f%x", rng.Intn(4))) // possibly in the initial history
					case 2, 3:
						deps = append(deps, fmt.Sprintf("%02x", first+rng.Intn(nrep))) // same block (incl. self)
					case 4, 5, 6:
						deps = append(deps, fmt.Sprintf("%02x", first+nrep+rng.Intn(4))) // a later block: waits in the queue
					default:
						deps = append(deps, fmt.Sprintf("%02x", 1+rng.Intn(first+nrep-1))) // any earlier or current
					}
				}
				pre, look := splitDeps(rng, deps)
				avail = append(avail, rep{lab, id, pre, look})
			}
			cut := 0
			if rng.Chance(1, 8) {
				cut = 1 + rng.Intn(2)
				st.Inc("hist-block-with-cut")
			}
			fmt.Fprintf(&sb, " %d %d %s", slot, cut, fmtAvail(avail))
		}
		emit(sb.String())
	}
	// ---- (4) the upstream guard (GP 11.38) on which the W! clause relies
	nguard := 2000
	if thorough {
		nguard = 20000
	}
	for c := 0; c < nguard; c++ {
		lab := func() string { return fmt.Sprintf("%02x", 1+rng.Intn(12)) }
		E := 1 + rng.Intn(4)
		xi := make([][]string, E)
		theta := make([][]rec, E)
		var rho, beta, g []string
		for i, m := 0, rng.Intn(3); i < m; i++ {
			k := rng.Intn(E)
			xi[k] = append(xi[k], lab())
		}
		for i, m := 0, rng.Intn(3); i < m; i++ {
			k := rng.Intn(E)
			theta[k] = append(theta[k], rec{lab(), uint64(i), []string{lab()}})
		}
		for i, m := 0, rng.Intn(3); i < m; i++ {
			rho = append(rho, lab())
		}
		for i, m := 0, rng.Intn(4); i < m; i++ {
			beta = append(beta, lab())
		}
		for i, m := 0, 1+rng.Intn(3); i < m; i++ {
			g = append(g, lab())
		}
		st.Inc("guard")
		emit(fmt.Sprintf("guard %s %s %s %s %s", fmtXi(xi), fmtTheta(theta), joinOr(rho, ","), joinOr(beta, ","), joinOr(g, ",")))
	}
	h.EmitStats(emit, st)
}

func main() { h.Main(gen, run) }
