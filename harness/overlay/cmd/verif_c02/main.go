//go:build verif

// C02 harness: both PVM engines on the programs of C01; see internal/verifpvm/c02.go.
package main

import (
	"github.com/New-JAMneration/JAM-Protocol/internal/verifpvm"
)

func main() { verifpvm.Main(verifpvm.GenC02, verifpvm.RunC02) }
