//go:build verif

// C23 harness: block histories through the real Safrole step (safrole.OuterUsedSafrole, which calls
// UpdateEntropy, KeyRotate, UpdateSlotKeySequence, UpdateEtaPrime0 and CreateNewTicketAccumulator on the
// blockchain.GetInstance() singleton), ticket identifiers chosen through the deterministic VRF stand-in
// (ring signature = id(32) || 0... || last byte, invalid iff last byte = 0xFF).
//
// input (one history per line):
//   <tiny|full> <tau0> <eta0> <eta1> <eta2> <eta3> <gk> <kappa> <lambda> <iota> <ga0> { B <slot> <vrf> <iota|-> <n> { <id> <attempt> <valid> }*n }*
//   validator set token:  K:<hex of V concatenated 32-byte bandersnatch keys> | S:<hex seed>  (key i = Blake2b(seed || E4(i)))
//   ga0 (initial accumulator): "-" or hex of 33-byte records id||attempt
//   the initial sealer sequence is F(eta2, kappa) computed by the real FallbackKeySequence (the model recomputes it)
// output: one segment per block, then the aliasing re-read
//   R<code>                                   rejected with Safrole error code <code>
//   A a=<tickets> s=<sealer>                  accepted: posterior accumulator; sealer "=" when the epoch did not change and
//                                             gamma_s' equals gamma_s, else T:<tickets> / K:<keys>
//   (tiny: tickets/keys in hex; full: "#<count>:<blake2b of the same bytes>")
//   alias=ok | alias=bad@<block>              every posterior accumulator / sealer slice kept by reference still renders the same
package main

import (
	"bytes"
	"fmt"
	"os"
	"runtime/debug"
	"sort"
	"strconv"
	"strings"

	"github.com/New-JAMneration/JAM-Protocol/internal/blockchain"
	"github.com/New-JAMneration/JAM-Protocol/internal/safrole"
	"github.com/New-JAMneration/JAM-Protocol/internal/types"
	"github.com/New-JAMneration/JAM-Protocol/internal/utilities/hash"
	h "github.com/New-JAMneration/JAM-Protocol/internal/verifh"
	"github.com/New-JAMneration/JAM-Protocol/logger"
)

// ---------------------------------------------------------------------------------------------
// run

var curMode string

func setMode(m string) {
	if m == curMode {
		return
	}
	switch m {
	case "tiny":
		types.SetTinyMode()
	case "full":
		types.SetFullMode()
	default:
		panic("verifh: bad mode " + m)
	}
	curMode = m
}

func le4(i int) []byte { return []byte{byte(i), byte(i >> 8), byte(i >> 16), byte(i >> 24)} }

func parseSet(tok string) types.ValidatorsData {
	v := make(types.ValidatorsData, types.ValidatorsCount)
	switch {
	case strings.HasPrefix(tok, "K:"):
		b := h.UnHex(tok[2:])
		if len(b) != 32*types.ValidatorsCount {
			panic("verifh: bad key set length")
		}
		for i := range v {
			copy(v[i].Bandersnatch[:], b[32*i:32*i+32])
		}
	case strings.HasPrefix(tok, "S:"):
		seed := h.UnHex(tok[2:])
		for i := range v {
			x := hash.Blake2bHash(append(append([]byte{}, seed...), le4(i)...))
			copy(v[i].Bandersnatch[:], x[:])
		}
	default:
		panic("verifh: bad set token")
	}
	return v
}

func parseEntropy(tok string) types.Entropy {
	var e types.Entropy
	b := h.UnHex(tok)
	if len(b) != 32 {
		panic("verifh: bad entropy")
	}
	copy(e[:], b)
	return e
}

func ticketBytes(ts []types.TicketBody) []byte {
	out := make([]byte, 0, 33*len(ts))
	for _, t := range ts {
		out = append(out, t.ID[:]...)
		if t.Attempt > 255 {
			out = append(out, 0xEE) // cannot happen after acceptance (attempt < N); shows up as a mismatch
		} else {
			out = append(out, byte(t.Attempt))
		}
	}
	return out
}

func keyBytes(ks []types.BandersnatchPublic) []byte {
	out := make([]byte, 0, 32*len(ks))
	for _, k := range ks {
		out = append(out, k[:]...)
	}
	return out
}

func render(b []byte, count int) string {
	if curMode == "full" {
		x := hash.Blake2bHash(b)
		return fmt.Sprintf("#%d:%s", count, h.Hex(x[:]))
	}
	return h.Hex(b)
}

func renderSealer(g types.TicketsOrKeys) string {
	switch {
	case len(g.Tickets) > 0 && len(g.Keys) > 0:
		return "BOTH"
	case len(g.Tickets) > 0:
		return "T:" + render(ticketBytes(g.Tickets), len(g.Tickets))
	default:
		return "K:" + render(keyBytes(g.Keys), len(g.Keys))
	}
}

func sameSealer(a, b types.TicketsOrKeys) bool {
	return bytes.Equal(ticketBytes(a.Tickets), ticketBytes(b.Tickets)) && bytes.Equal(keyBytes(a.Keys), keyBytes(b.Keys))
}

type kept struct {
	block int
	ga    types.TicketsAccumulator
	gs    types.TicketsOrKeys
	gaStr string
	gsStr string
}

func run(input string) string {
	if os.Getenv("VERIF_DEBUG") != "" {
		defer func() {
			if r := recover(); r != nil {
				fmt.Fprintln(os.Stderr, r, string(debug.Stack()))
				panic(r)
			}
		}()
	}
	f := strings.Fields(input)
	setMode(f[0])
	blockchain.ResetInstance()
	blockchain.ClearVerifierCache()
	cs := blockchain.GetInstance()
	E := types.EpochLength

	tau0 := types.TimeSlot(h.U(f[1]))
	var eta types.EntropyBuffer
	for i := 0; i < 4; i++ {
		eta[i] = parseEntropy(f[2+i])
	}
	gk, kappa, lambda, iota := parseSet(f[6]), parseSet(f[7]), parseSet(f[8]), parseSet(f[9])
	ga0b := h.UnHex(f[10])
	if len(ga0b)%33 != 0 {
		panic("verifh: bad ga0")
	}
	ga0 := make(types.TicketsAccumulator, 0, len(ga0b)/33)
	for i := 0; i+33 <= len(ga0b); i += 33 {
		var t types.TicketBody
		copy(t.ID[:], ga0b[i:i+32])
		t.Attempt = types.TicketAttempt(ga0b[i+32])
		ga0 = append(ga0, t)
	}
	pr := cs.GetPriorStates()
	pr.SetTau(tau0)
	pr.SetEta(eta)
	pr.SetGammaK(gk)
	pr.SetKappa(kappa)
	pr.SetLambda(lambda)
	pr.SetIota(iota)
	pr.SetGammaA(ga0)
	pr.SetGammaS(types.TicketsOrKeys{Keys: safrole.FallbackKeySequence(eta[2], kappa)})

	var out []string
	var keep []kept
	pos := 11
	blockNo := 0
	for pos < len(f) {
		if f[pos] != "B" {
			panic("verifh: expected B")
		}
		slot := types.TimeSlot(h.U(f[pos+1]))
		vrf := h.UnHex(f[pos+2])
		if len(vrf) != 32 {
			panic("verifh: bad vrf output")
		}
		iotaTok := f[pos+3]
		n := h.I(f[pos+4])
		pos += 5
		ext := make(types.TicketsExtrinsic, n)
		for i := 0; i < n; i++ {
			id := h.UnHex(f[pos])
			if len(id) != 32 {
				panic("verifh: bad ticket id")
			}
			att, err := strconv.ParseUint(f[pos+1], 10, 64)
			if err != nil {
				panic("verifh: bad attempt")
			}
			copy(ext[i].Signature[:32], id)
			ext[i].Signature[40] = byte(att) // filler, not part of the identifier
			if f[pos+2] == "0" {
				ext[i].Signature[783] = 0xFF
			}
			ext[i].Attempt = types.TicketAttempt(att)
			pos += 3
		}
		if iotaTok != "-" {
			cs.GetPriorStates().SetIota(parseSet(iotaTok))
		}
		var hdr types.Header
		hdr.Slot = slot
		copy(hdr.EntropySource[:32], vrf)
		cs.AddBlock(types.Block{Header: hdr, Extrinsic: types.Extrinsic{Tickets: ext}})
		cs.GetPosteriorStates().SetTau(slot) // as stf.RunSTF does before UpdateSafrole
		cs.GetPosteriorStates().SetPsiO(types.OffendersMark{})

		priorTau := cs.GetPriorStates().GetTau()
		priorGs := cs.GetPriorStates().GetGammaS()
		ec := safrole.OuterUsedSafrole()
		if ec != nil {
			out = append(out, fmt.Sprintf("R%d", int(*ec)))
			// rejected block: the prior state stays, the half-built posterior state is dropped
			cs.GetPosteriorStates().SetState(blockchain.NewPosteriorStates().GetState())
		} else {
			post := cs.GetPosteriorStates()
			ga := post.GetGammaA()
			gs := post.GetGammaS()
			gaStr := render(ticketBytes(ga), len(ga))
			gsStr := renderSealer(gs)
			shown := gsStr
			if int(slot)/E == int(priorTau)/E && sameSealer(gs, priorGs) {
				shown = "="
			}
			out = append(out, "A a="+gaStr+" s="+shown)
			keep = append(keep, kept{blockNo, ga, gs, gaStr, gsStr})
			// commit as ChainState.StateCommit does (without persistence)
			st := post.GetState()
			st.Iota = cs.GetPriorStates().GetIota() // iota' comes from accumulation, which is not run here
			cs.GetPriorStates().SetState(st)
			cs.GetPosteriorStates().SetState(blockchain.NewPosteriorStates().GetState())
		}
		blockNo++
	}
	alias := "alias=ok"
	for _, k := range keep {
		if render(ticketBytes(k.ga), len(k.ga)) != k.gaStr || renderSealer(k.gs) != k.gsStr {
			alias = fmt.Sprintf("alias=bad@%d", k.block)
			break
		}
	}
	out = append(out, alias)
	return strings.Join(out, " ")
}

// ---------------------------------------------------------------------------------------------
// gen

type genTicket struct {
	id    []byte
	att   uint64
	valid bool
}

func randID(rng *h.Rng) []byte {
	switch rng.Intn(10) {
	case 0: // differs from its neighbours only in the last byte
		b := make([]byte, 32)
		b[31] = byte(rng.Intn(256))
		return b
	case 1: // shared long prefix, differs late
		b := bytes.Repeat([]byte{0x7F}, 32)
		b[20+rng.Intn(12)] = byte(rng.Intn(256))
		return b
	case 2: // extremes
		if rng.Bool() {
			return bytes.Repeat([]byte{0xFF}, 32)
		}
		return make([]byte, 32)
	case 3: // small first byte: likely to be among the lowest
		b := rng.Bytes(32)
		b[0] = byte(rng.Intn(4))
		return b
	default:
		return rng.Bytes(32)
	}
}

func setTok(rng *h.Rng, V int, explicit bool) string {
	if explicit {
		return "K:" + h.Hex(rng.Bytes(32*V))
	}
	return "S:" + h.Hex(rng.Bytes(8))
}

func genHistory(rng *h.Rng, mode string, st h.Stats) string {
	E, Y, N, V := 12, 10, 3, 6
	nblocks := 12 + rng.Intn(50)
	if mode == "full" {
		E, Y, N, V = 600, 500, 2, 1023
		nblocks = 20 + rng.Intn(30)
	}
	var sb strings.Builder
	tau := uint64(rng.Intn(2000))*uint64(E) + uint64(rng.Intn(E))
	switch rng.Intn(20) {
	case 0, 1:
		tau = uint64(rng.Intn(E)) // first epoch
	case 2: // close to the top of the 32-bit slot range (slots stay below 2^32)
		tau = (1 << 32) - 1 - uint64(nblocks)*uint64(3*E+90) - uint64(rng.Intn(E))
		st.Inc("tau-near-2^32")
	}
	fmt.Fprintf(&sb, "%s %d", mode, tau)
	for i := 0; i < 4; i++ {
		sb.WriteString(" " + h.Hex(rng.Bytes(32)))
	}
	explicit := mode == "tiny" && rng.Bool()
	for i := 0; i < 4; i++ {
		sb.WriteString(" " + setTok(rng, V, explicit))
	}
	// initial accumulator: empty, partly filled or full (sorted, distinct)
	var epochIDs [][]byte // identifiers submitted in the current epoch (candidates for clashes)
	switch rng.Intn(4) {
	case 0:
		cnt := 1 + rng.Intn(E)
		if rng.Bool() {
			cnt = E
		}
		ids := make([][]byte, 0, cnt)
		seen := map[string]bool{}
		for len(ids) < cnt {
			id := randID(rng)
			if !seen[string(id)] {
				seen[string(id)] = true
				ids = append(ids, id)
			}
		}
		sort.Slice(ids, func(i, j int) bool { return bytes.Compare(ids[i], ids[j]) < 0 })
		var b []byte
		for _, id := range ids {
			b = append(b, id...)
			b = append(b, byte(rng.Intn(N)))
		}
		sb.WriteString(" " + h.Hex(b))
		epochIDs = ids
		st.Inc("init-acc-prefilled")
	default:
		sb.WriteString(" -")
		st.Inc("init-acc-empty")
	}

	for bi := 0; bi < nblocks; bi++ {
		// slot
		prev := tau
		r := rng.Intn(100)
		step := uint64(1)
		if mode == "full" {
			step = uint64(1 + rng.Intn(90))
		}
		back := uint64(0)
		switch {
		case r < 4: // not strictly increasing
			step = 0
			if rng.Bool() && tau > 0 {
				back = uint64(1 + rng.Intn(int(min64(tau, 3))))
			}
			st.Inc("slot-not-increasing")
		case r < 12:
			step += uint64(1 + rng.Intn(3))
		case r < 16: // jump to the start region of the next epoch
			step = uint64(E) - tau%uint64(E) + uint64(rng.Intn(3))
		case r < 19: // skip at least one whole epoch
			step = uint64(E)*uint64(1+rng.Intn(2)) + uint64(rng.Intn(E))
			st.Inc("epoch-skipped")
		}
		slot := tau + step - back
		if slot/uint64(E) != prev/uint64(E) && slot > prev {
			epochIDs = nil
			st.Inc("epoch-change")
		}
		m := int(slot % uint64(E))
		// extrinsic
		n := 0
		inTail := m >= Y
		szr := rng.Intn(100)
		big := V
		if mode == "full" {
			big = 40 + rng.Intn(300)
		}
		switch {
		case inTail && szr < 80:
			n = 0
		case szr < 20:
			n = 0
		case szr < 55:
			n = 1 + rng.Intn(3)
		case szr < 90:
			n = 1 + rng.Intn(big)
		case szr < 95:
			n = big
		case szr < 98 && mode == "tiny":
			n = V + 1 + rng.Intn(2) // larger than the Safrole step admits
			st.Inc("ext-oversize")
		default:
			n = 1
		}
		ts := make([]genTicket, 0, n)
		seen := map[string]bool{}
		for len(ts) < n {
			id := randID(rng)
			if seen[string(id)] {
				continue
			}
			seen[string(id)] = true
			ts = append(ts, genTicket{id, uint64(rng.Intn(N)), true})
		}
		sort.Slice(ts, func(i, j int) bool { return bytes.Compare(ts[i].id, ts[j].id) < 0 })
		if n > 0 && inTail {
			st.Inc("ext-after-window")
		}
		// at most one defect per block, in a quarter of the non-empty blocks
		if n > 0 && rng.Chance(1, 4) {
			switch rng.Intn(7) {
			case 0: // swap two neighbours / shuffle
				if n >= 2 {
					if rng.Bool() {
						i := rng.Intn(n - 1)
						ts[i], ts[i+1] = ts[i+1], ts[i]
					} else {
						for i := n - 1; i > 0; i-- {
							j := rng.Intn(i + 1)
							ts[i], ts[j] = ts[j], ts[i]
						}
					}
					st.Inc("defect-unsorted")
				}
			case 1: // duplicate inside the extrinsic (adjacent, so that the order check passes), maybe with another attempt
				if n >= 2 {
					i := rng.Intn(n - 1)
					ts[i+1].id = append([]byte{}, ts[i].id...)
					ts[i+1].att = uint64(rng.Intn(N))
					st.Inc("defect-duplicate")
				}
			case 2: // attempt out of range, including values that only differ above 8 / 32 bits
				vals := []uint64{uint64(N), uint64(N) + 1, 255, 256, 256 + uint64(rng.Intn(N)), 1 << 32, (1 << 32) + uint64(rng.Intn(N)), ^uint64(0)}
				ts[rng.Intn(n)].att = vals[rng.Intn(len(vals))]
				st.Inc("defect-attempt")
			case 3:
				ts[rng.Intn(n)].valid = false
				st.Inc("defect-proof")
			case 4, 5: // clash with a ticket submitted earlier in this epoch
				if len(epochIDs) > 0 {
					i := rng.Intn(n)
					ts[i].id = append([]byte{}, epochIDs[rng.Intn(len(epochIDs))]...)
					sort.Slice(ts, func(i, j int) bool { return bytes.Compare(ts[i].id, ts[j].id) < 0 })
					st.Inc("defect-clash-candidate")
				}
			case 6: // two defects at once: which class is reported depends on the order of the checks
				ts[0].att = uint64(N)
				ts[n-1].valid = false
				if n >= 2 {
					ts[0], ts[n-1] = ts[n-1], ts[0]
				}
				st.Inc("defect-multiple")
			}
		} else if n > 0 {
			for _, t := range ts {
				epochIDs = append(epochIDs, t.id)
			}
		}
		iotaTok := "-"
		if rng.Chance(1, 12) {
			iotaTok = setTok(rng, V, explicit)
			st.Inc("iota-changed")
		}
		fmt.Fprintf(&sb, " B %d %s %s %d", slot, h.Hex(rng.Bytes(32)), iotaTok, n)
		for _, t := range ts {
			v := "1"
			if !t.valid {
				v = "0"
			}
			fmt.Fprintf(&sb, " %s %d %s", h.Hex(t.id), t.att, v)
		}
		st.Inc("blocks")
		st.Inc(fmt.Sprintf("ext-size-%s", sizeClass(n, E)))
		if slot > tau {
			tau = slot
		}
	}
	return sb.String()
}

func min64(a, b uint64) uint64 {
	if a < b {
		return a
	}
	return b
}

func sizeClass(n, E int) string {
	switch {
	case n == 0:
		return "0"
	case n <= 3:
		return "1-3"
	case n <= 6:
		return "4-6"
	case n < E:
		return "7-E"
	default:
		return "geE"
	}
}

func gen(rng *h.Rng, tier string, emit func(string)) {
	st := h.Stats{}
	nTiny, nFull := 2000, 4
	if tier == "thorough" {
		nTiny, nFull = 40000, 60
	}
	for i := 0; i < nTiny; i++ {
		emit(genHistory(rng.Fork(), "tiny", st))
		st.Inc("histories-tiny")
	}
	for i := 0; i < nFull; i++ {
		emit(genHistory(rng.Fork(), "full", st))
		st.Inc("histories-full")
	}
	h.EmitStats(emit, st)
}

func main() {
	os.Setenv("JAM_FUZZ", "1") // in-memory repositories only: nothing is written to disk by ChainState
	if os.Getenv("VERIF_DEBUG") == "" {
		logger.Disable()
	}
	h.Main(gen, run)
}
