//go:build verif

// C20 harness: Gray Paper appendix F shuffle and the guarantor assignment (11.19-11.20).
//
//	fy   <s csv> <r csv>              shuffle.FisherYatesShuffle(s, r)            -> csv   (|r| >= |s|)
//	qseq <entropy hex32> <len>        numericSequenceFromHash (unexported, F.2)   -> csv
//	shuf <entropy hex32> <s csv>      shuffle.Shuffle(s, entropy)                 -> csv
//	rot  <C> <n> <csv>                rotateCores (unexported, 11.19), CoresCount = C -> csv
//	perm <mode> <entropy> <slot>      permute (unexported, 11.20)                 -> csv
//	perms <mode> <entropy> <t0> <n>   permute for each of the n slots t0, t0+1, ...  -> csv;csv;...
//	ga   <mode> <entropy> <slot>      NewGuranatorAssignments(...)                -> csv keys=ok|bad
//	gas  <mode> <entropy> <t0> <n>    NewGuranatorAssignments for n consecutive slots -> csv;csv;... keys=ok|bad
//
// mode = tiny | full (types.SetTinyMode / SetFullMode) | V:C:E:R (the four package variables set directly).
// csv of an empty sequence is "-".
package main

import (
	"fmt"
	"runtime/debug"
	"strconv"
	"strings"

	"github.com/New-JAMneration/JAM-Protocol/internal/extrinsic"
	"github.com/New-JAMneration/JAM-Protocol/internal/types"
	"github.com/New-JAMneration/JAM-Protocol/internal/utilities/shuffle"
	h "github.com/New-JAMneration/JAM-Protocol/internal/verifh"
	"github.com/New-JAMneration/JAM-Protocol/logger"
)

func csv32(v []types.U32) string {
	if len(v) == 0 {
		return "-"
	}
	var b strings.Builder
	for i, x := range v {
		if i > 0 {
			b.WriteByte(',')
		}
		b.WriteString(strconv.FormatUint(uint64(x), 10))
	}
	return b.String()
}

func parse32(s string) []types.U32 {
	if s == "-" || s == "" {
		return []types.U32{}
	}
	parts := strings.Split(s, ",")
	out := make([]types.U32, len(parts))
	for i, p := range parts {
		v := h.U(p)
		if v > 0xFFFFFFFF {
			panic("verifh: value exceeds U32 " + p)
		}
		out[i] = types.U32(v)
	}
	return out
}

func entropy(rng *h.Rng) []byte {
	switch rng.Intn(12) {
	case 0:
		return make([]byte, 32)
	case 1:
		b := make([]byte, 32)
		for i := range b {
			b[i] = 0xFF
		}
		return b
	}
	return rng.Bytes(32)
}

// boundary-biased 32-bit draw (values of the number sequence r)
func draw32(rng *h.Rng) types.U32 {
	switch rng.Intn(8) {
	case 0:
		return types.U32(rng.Intn(4))
	case 1:
		return types.U32(0xFFFFFFFF - uint32(rng.Intn(4)))
	case 2:
		return types.U32(rng.Intn(40))
	}
	return types.U32(rng.U64())
}

func seqKind(rng *h.Rng, n int, kind int) []types.U32 {
	s := make([]types.U32, n)
	for i := range s {
		switch kind {
		case 0: // identity: the permutation is directly visible
			s[i] = types.U32(i)
		case 1: // few distinct values, many duplicates (the shape of the core list)
			s[i] = types.U32(rng.Intn(1 + n/3))
		default:
			s[i] = draw32(rng)
		}
	}
	return s
}

func gen(rng *h.Rng, tier string, emit func(string)) {
	st := h.Stats{}
	thorough := tier == "thorough"
	mul := 1
	if thorough {
		mul = 8
	}
	// --- F.1 with explicit number sequences: every length 0..24 many times, some long ones
	for rep := 0; rep < 150*mul; rep++ {
		for n := 0; n <= 24; n++ {
			s := seqKind(rng, n, rng.Intn(3))
			extra := 0
			if rng.Chance(1, 4) {
				extra = rng.Intn(4)
			}
			r := make([]types.U32, n+extra)
			for i := range r {
				r[i] = draw32(rng)
			}
			emit("fy " + csv32(s) + " " + csv32(r))
			st.Inc("fy-short")
		}
	}
	for rep := 0; rep < 40*mul; rep++ {
		n := 25 + rng.Intn(300)
		s := seqKind(rng, n, rng.Intn(3))
		r := make([]types.U32, n)
		for i := range r {
			r[i] = draw32(rng)
		}
		emit("fy " + csv32(s) + " " + csv32(r))
		st.Inc("fy-long")
	}
	// --- F.2: every length 0..80 (ten hash blocks), a few long ones
	for rep := 0; rep < 3*mul; rep++ {
		for n := 0; n <= 80; n++ {
			emit(fmt.Sprintf("qseq %s %d", h.Hex(entropy(rng)), n))
			st.Inc("qseq")
		}
	}
	for _, n := range []int{255, 256, 257, 1023, 1100, 2049} {
		emit(fmt.Sprintf("qseq %s %d", h.Hex(entropy(rng)), n))
		st.Inc("qseq")
	}
	// --- F.3: all sequence lengths 0..1100 with random entropy
	//     (identity input for every length; inputs with duplicates / arbitrary values for every
	//     length up to 64 and every fourth length above in the quick tier, every length in the thorough tier)
	kinds := 3
	if thorough {
		kinds = 9
	}
	for k := 0; k < kinds; k++ {
		for n := 0; n <= 1100; n++ {
			if !thorough && k > 0 && n > 64 && n%4 != k {
				continue
			}
			emit("shuf " + h.Hex(entropy(rng)) + " " + csv32(seqKind(rng, n, k%3)))
			st.Inc(fmt.Sprintf("shuf-kind%d", k%3))
		}
	}
	// --- 11.19
	for rep := 0; rep < 400*mul; rep++ {
		c := 1 + rng.Intn(400)
		n := rng.Intn(2 * c)
		l := rng.Intn(30)
		s := make([]types.U32, l)
		for i := range s {
			s[i] = types.U32(rng.Intn(c))
		}
		emit(fmt.Sprintf("rot %d %d %s", c, n, csv32(s)))
		st.Inc("rot")
	}
	// --- 11.20: all slots of several epochs, tiny and full parameter sets
	// one case per (epoch, entropy): every slot of the epoch (the slots of an epoch share the entropy)
	epochsOf := func(mode string, E int, epochs []uint64, entropies int, kind string) {
		for _, ep := range epochs {
			for k := 0; k < entropies; k++ {
				t0 := ep * uint64(E)
				n := uint64(E)
				if t0+n-1 > 0xFFFFFFFF {
					n = 0xFFFFFFFF - t0 + 1
				}
				emit(fmt.Sprintf("%s %s %s %d %d", kind, mode, h.Hex(entropy(rng)), t0, n))
				st[kind+"-"+mode+"-slots"] += int(n)
			}
		}
	}
	tinyEpochs := []uint64{0, 1, 2, 3, 1000, 357913940, 357913941} // the last ones hold slots up to 2^32-1
	fullEpochs := []uint64{0, 1, 7158278}                          // 7158278*600 .. 2^32-1
	if thorough {
		fullEpochs = append(fullEpochs, 2, 3, 1000, 7158277)
	}
	epochsOf("tiny", 12, tinyEpochs, 40*mul, "perms")
	epochsOf("full", 600, fullEpochs, mul, "perms")
	epochsOf("tiny", 12, []uint64{0, 5}, 10*mul, "gas")
	epochsOf("full", 600, []uint64{uint64(2 + rng.Intn(1000))}, mul, "gas")
	// single slots
	for rep := 0; rep < 300*mul; rep++ {
		emit(fmt.Sprintf("perm tiny %s %d", h.Hex(entropy(rng)), uint32(rng.U64())>>uint(rng.Intn(32))))
		st.Inc("perm-tiny")
	}
	for rep := 0; rep < 60*mul; rep++ {
		emit(fmt.Sprintf("perm full %s %d", h.Hex(entropy(rng)), uint32(rng.U64())>>uint(rng.Intn(32))))
		emit(fmt.Sprintf("ga full %s %d", h.Hex(entropy(rng)), uint32(rng.U64())>>uint(rng.Intn(32))))
		st.Inc("perm-full")
		st.Inc("ga-full")
	}
	// other parameter sets (V, C, E, R all positive; C need not divide V)
	for rep := 0; rep < 1500*mul; rep++ {
		v := rng.Intn(40)
		if rng.Chance(1, 10) {
			v = rng.Intn(300)
		}
		c := 1 + rng.Intn(1+v)
		if rng.Chance(1, 2) && v > 0 { // divisor of v
			for v%c != 0 {
				c--
			}
		}
		r := 1 + rng.Intn(12)
		e := r * (1 + rng.Intn(8))
		if rng.Chance(1, 5) {
			e = 1 + rng.Intn(60) // R does not divide E
		}
		slot := rng.Intn(5 * e)
		if rng.Chance(1, 10) {
			slot = int(uint32(rng.U64()))
		}
		emit(fmt.Sprintf("perm %d:%d:%d:%d %s %d", v, c, e, r, h.Hex(entropy(rng)), slot))
		st.Inc("perm-custom")
	}
	h.EmitStats(emit, st)
}

var curMode string

func setMode(mode string) {
	if mode == curMode {
		return
	}
	switch mode {
	case "tiny":
		types.SetTinyMode()
	case "full":
		types.SetFullMode()
	default:
		p := strings.Split(mode, ":")
		if len(p) != 4 {
			panic("verifh: bad mode " + mode)
		}
		types.SetTinyMode()
		types.ValidatorsCount = h.I(p[0])
		types.CoresCount = h.I(p[1])
		types.EpochLength = h.I(p[2])
		types.RotationPeriod = h.I(p[3])
	}
	curMode = mode
}

func hash32(s string) (o [32]byte) {
	b := h.UnHex(s)
	if len(b) != 32 {
		panic("verifh: entropy must be 32 bytes")
	}
	copy(o[:], b)
	return
}

func coreCsv(v []types.CoreIndex) string {
	u := make([]types.U32, len(v))
	for i, x := range v {
		u[i] = types.U32(x)
	}
	return csv32(u)
}

func run(input string) string {
	f := strings.Fields(input)
	switch f[0] {
	case "fy":
		return csv32(shuffle.FisherYatesShuffle(parse32(f[1]), parse32(f[2])))
	case "qseq":
		return csv32(shuffle.VerifNumericSequenceFromHash(types.OpaqueHash(hash32(f[1])), types.U32(h.U(f[2]))))
	case "shuf":
		return csv32(shuffle.Shuffle(parse32(f[2]), types.OpaqueHash(hash32(f[1]))))
	case "rot":
		setMode("tiny")
		curMode = ""
		types.CoresCount = h.I(f[1])
		return csv32(extrinsic.VerifRotateCores(parse32(f[3]), types.U32(h.U(f[2]))))
	case "perm":
		setMode(f[1])
		return coreCsv(extrinsic.VerifPermute(types.Entropy(hash32(f[2])), types.TimeSlot(h.U(f[3]))))
	case "perms":
		setMode(f[1])
		t0, n := h.U(f[3]), h.U(f[4])
		var b strings.Builder
		for i := uint64(0); i < n; i++ {
			if i > 0 {
				b.WriteByte(';')
			}
			b.WriteString(coreCsv(extrinsic.VerifPermute(types.Entropy(hash32(f[2])), types.TimeSlot(t0+i))))
		}
		return b.String()
	case "ga", "gas":
		setMode(f[1])
		t0, n := h.U(f[3]), uint64(1)
		if f[0] == "gas" {
			n = h.U(f[4])
		}
		keys := "ok"
		var b strings.Builder
		for k := uint64(0); k < n; k++ {
			vals := make(types.ValidatorsData, types.ValidatorsCount)
			for i := range vals {
				vals[i].Ed25519[0] = byte(i)
				vals[i].Ed25519[1] = byte(i >> 8)
				vals[i].Ed25519[31] = 1
				vals[i].Bandersnatch[0] = byte(i)
				vals[i].Bandersnatch[5] = byte(i >> 8)
				vals[i].Bls[7] = byte(i)
				vals[i].Metadata[9] = byte(i >> 8)
			}
			want := append(types.ValidatorsData{}, vals...)
			g := extrinsic.NewGuranatorAssignments(types.Entropy(hash32(f[2])), types.TimeSlot(t0+k), vals)
			if len(g.PublicKeys) != len(want) {
				keys = "bad"
			} else {
				for i := range want {
					if g.PublicKeys[i] != want[i] {
						keys = "bad"
					}
				}
			}
			if k > 0 {
				b.WriteByte(';')
			}
			b.WriteString(coreCsv(g.CoreAssignments))
		}
		return b.String() + " keys=" + keys
	}
	panic("verifh: bad case " + input)
}

func main() {
	logger.SetEnabled(false)
	// the recursive shuffle allocates O(n^2) short-lived memory per call: collect less often
	debug.SetGCPercent(2000)
	h.Main(gen, run)
}
