//go:build verif

// C06 harness: SingleInitializer(p, a) against the Gray Paper Y(p, a).
// input : init <blob hex> <arg hex>
// output: rej | ok c=<hex> regs=<r0,...,r12> pages=<pn:acc:trimmed-hex;...>   (acc 1 = R, 2 = W)
package main

import (
	"fmt"
	"strings"

	"github.com/New-JAMneration/JAM-Protocol/PVM"
	h "github.com/New-JAMneration/JAM-Protocol/internal/verifh"
)

func le(v uint64, n int) []byte {
	b := make([]byte, n)
	for i := 0; i < n; i++ {
		b[i] = byte(v >> (8 * uint(i)))
	}
	return b
}

func mkBlob(o, w []byte, z, s uint64, c []byte) []byte {
	var p []byte
	p = append(p, le(uint64(len(o)), 3)...)
	p = append(p, le(uint64(len(w)), 3)...)
	p = append(p, le(z, 2)...)
	p = append(p, le(s, 3)...)
	p = append(p, o...)
	p = append(p, w...)
	p = append(p, le(uint64(len(c)), 4)...)
	p = append(p, c...)
	return p
}

var sizes = []int{0, 1, 2, 4095, 4096, 4097, 8191, 8192, 8193, 65535, 65536, 65537}
var smallSizes = []int{0, 1, 2, 100, 4095, 4096, 4097, 8192}

func content(rng *h.Rng, n int) []byte {
	b := rng.Bytes(n)
	// make the tail of the data sometimes zero / sometimes non-zero at the very end
	if n > 0 && rng.Bool() {
		b[n-1] = 0xAB
	}
	return b
}

func gen(rng *h.Rng, tier string, emit func(string)) {
	st := h.Stats{}
	one := func(o, w []byte, z, s uint64, c, a []byte, kind string) {
		emit("init " + h.Hex(mkBlob(o, w, z, s, c)) + " " + h.Hex(a))
		st.Inc(kind)
	}
	// boundary sweep: each section size over the boundary set, others small
	for _, n := range sizes {
		one(content(rng, n), content(rng, 3), 0, 0, content(rng, 5), content(rng, 2), "o-boundary")
		one(content(rng, 3), content(rng, n), uint64(rng.Intn(3)), 0, content(rng, 5), content(rng, 2), "w-boundary")
		one(content(rng, 1), content(rng, 1), 0, uint64(n), content(rng, 5), content(rng, 2), "s-boundary")
		one(content(rng, 1), content(rng, 1), 1, 4096, content(rng, 5), content(rng, n), "a-boundary")
	}
	nr := 300
	if tier == "thorough" {
		nr = 6000
	}
	pick := func() int {
		if rng.Chance(1, 12) {
			return sizes[rng.Intn(len(sizes))]
		}
		if rng.Chance(1, 2) {
			return smallSizes[rng.Intn(len(smallSizes))]
		}
		return rng.Intn(9000)
	}
	for i := 0; i < nr; i++ {
		z := uint64(rng.Intn(4))
		if rng.Chance(1, 20) {
			z = uint64(rng.Intn(40))
		}
		s := uint64(pick())
		one(content(rng, pick()), content(rng, pick()), z, s, content(rng, rng.Intn(40)), content(rng, pick()), "random")
	}
	// large arguments up to the input-zone size (rare: big lines)
	if tier == "thorough" {
		one(content(rng, 1), content(rng, 1), 0, 0, []byte{0}, content(rng, 1<<24), "a-max")
		one(content(rng, 1), content(rng, 1), 0, 0, []byte{0}, content(rng, 1<<24-1), "a-max")
	}
	if tier == "thorough" {
		one(content(rng, 1), content(rng, 1), 0, 1<<24-1, []byte{0}, content(rng, 70000), "s-max")
	}
	one(content(rng, 1), content(rng, 1), 0, 1<<20-1, []byte{0}, content(rng, 70000), "s-large")
	one(content(rng, 1), content(rng, 1), 300, 0, []byte{0}, nil, "z-large")
	// malformed: truncations, trailing bytes, declared lengths exceeding the data
	for i := 0; i < nr; i++ {
		p := mkBlob(content(rng, rng.Intn(30)), content(rng, rng.Intn(30)), uint64(rng.Intn(2)), uint64(rng.Intn(5000)), content(rng, rng.Intn(30)))
		a := content(rng, rng.Intn(10))
		switch rng.Intn(4) {
		case 0:
			p = p[:rng.Intn(len(p))]
			st.Inc("mal-truncated")
		case 1:
			p = append(p, rng.Bytes(1+rng.Intn(4))...)
			st.Inc("mal-trailing")
		case 2:
			j := rng.Intn(11)
			p[j] ^= byte(1 << uint(rng.Intn(8)))
			st.Inc("mal-lenflip")
		case 3:
			p = rng.Bytes(rng.Intn(40))
			st.Inc("mal-random")
		}
		emit("init " + h.Hex(p) + " " + h.Hex(a))
	}
	h.EmitStats(emit, st)
}

func trim(b []byte) []byte {
	n := len(b)
	for n > 0 && b[n-1] == 0 {
		n--
	}
	return b[:n]
}

func run(input string) string {
	f := strings.Fields(input)
	p := h.UnHex(f[1])
	a := h.UnHex(f[2])
	p0 := append([]byte(nil), p...)
	a0 := append([]byte(nil), a...)
	c, regs, mem, ex := PVM.SingleInitializer(p, a)
	if ex != PVM.ExitContinue {
		return "rej"
	}
	c = append([]byte(nil), c...)
	// independence of the result from the caller's buffers (aliasing): dump, then scribble over the inputs and
	// dump again; then scribble over every page and look at the inputs
	first := dump(c, regs, &mem)
	for i := range p {
		p[i] ^= 0x5A
	}
	for i := range a {
		a[i] ^= 0x5A
	}
	alias := "ok"
	if dump(c, regs, &mem) != first {
		alias = "pages-follow-caller-buffers"
	}
	copy(p, p0)
	copy(a, a0)
	_, _, vals := PVM.VerifPages(&mem)
	for _, v := range vals {
		for i := range v {
			v[i] ^= 0xA5
		}
	}
	if string(p) != string(p0) || string(a) != string(a0) {
		alias = "caller-buffers-follow-pages"
	}
	return first + " alias=" + alias
}

func dump(c []byte, regs PVM.Registers, memp *PVM.Memory) string {
	mem := *memp
	var sb strings.Builder
	sb.WriteString("ok c=" + h.Hex(c) + " regs=")
	for i, r := range regs {
		if i > 0 {
			sb.WriteByte(',')
		}
		fmt.Fprintf(&sb, "%d", r)
	}
	sb.WriteString(" pages=")
	nums, acc, vals := PVM.VerifPages(memp)
	_ = mem
	for i, n := range nums {
		if len(vals[i]) != 4096 {
			fmt.Fprintf(&sb, "%d:%d:BADLEN%d;", n, acc[i], len(vals[i]))
			continue
		}
		fmt.Fprintf(&sb, "%d:%d:%s;", n, acc[i], h.Hex(trim(vals[i])))
	}
	return sb.String()
}

func main() { h.Main(gen, run) }
