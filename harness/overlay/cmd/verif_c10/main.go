//go:build verif

// C10 harness: PVM.Psi_A on assembled accumulate programs that interleave tagged storage writes /
// deletes, transfers, yields, provides, upgrades, service creation and checkpoints and end by halting
// (empty / 32-byte / other output), trapping, or running out of gas after a chosen number of host calls.
// input : psia <end> <ops...>      ops: w<k> d<k> t<k> y<k> p<k> u<k> n c     end: h32:<k> | h0 | hx | trap | oog:<j>
//         (oog:<j>: the gas limit pays for exactly the first j operations and runs out inside operation j+1)
// output: store=<tags> t=<tags in order> y=<tag|-> p=<tags> code=<tag> new=<count> spent=<n> rcv=<other account unchanged>
package main

import (
	"fmt"
	"sort"
	"strconv"
	"strings"

	"github.com/New-JAMneration/JAM-Protocol/PVM"
	"github.com/New-JAMneration/JAM-Protocol/internal/types"
	"github.com/New-JAMneration/JAM-Protocol/internal/utilities/hash"
	"github.com/New-JAMneration/JAM-Protocol/internal/utilities/merklization"
	h "github.com/New-JAMneration/JAM-Protocol/internal/verifh"
)

func le(v uint64, n int) []byte {
	b := make([]byte, n)
	for i := 0; i < n; i++ {
		b[i] = byte(v >> (8 * uint(i)))
	}
	return b
}

type asm struct {
	code []byte
	mask []bool
	cost int // instructions executed so far (1 gas each)
}

func (a *asm) ins(b ...byte) {
	for i := range b {
		a.mask = append(a.mask, i == 0)
	}
	a.code = append(a.code, b...)
	a.cost++
}
func (a *asm) loadImm(reg byte, v uint32) { a.ins(append([]byte{51, reg}, le(uint64(v), 4)...)...) }
func (a *asm) ecalli(id byte)              { a.ins(10, id) }

func (a *asm) blob() []byte {
	n := len(a.code)
	mb := make([]byte, (n+7)/8)
	for i, m := range a.mask {
		if m {
			mb[i/8] |= 1 << uint(i%8)
		}
	}
	enc, _ := types.NewEncoder().EncodeUint(uint64(n))
	out := []byte{0, 0}
	out = append(out, enc...)
	out = append(out, a.code...)
	out = append(out, mb...)
	return out
}

func standard(w []byte, c []byte) []byte {
	var p []byte
	p = append(p, le(0, 3)...)
	p = append(p, le(uint64(len(w)), 3)...)
	p = append(p, le(0, 2)...)
	p = append(p, le(4096, 3)...)
	p = append(p, w...)
	p = append(p, le(uint64(len(c)), 4)...)
	p = append(p, c...)
	return p
}

const (
	self     = 77
	receiver = 88
	rw       = 0x20000
)

func keyOf(k int) []byte   { return []byte{0x4B, byte(k)} }
func valOf(k int) []byte   { return []byte{byte(k), 0x56, 0x56} }
func blobOf(k int) []byte  { return []byte{0xB0, byte(k), 1, 2, 3, 4, 5, 6} }
func hashOf(t byte, k int) []byte {
	b := make([]byte, 32)
	b[0] = t
	b[1] = byte(k)
	return b
}

type built struct {
	code     []byte
	gasAfter []int // gas needed to complete the first j operations (j = 0..n)
	total    int
}

// assemble: each operation is a run of load_imm + one ecalli; gas cost = instructions + 10 per host call (+10 transfer gas)
func assemble(ops []string, end string) built {
	a := &asm{}
	a.ins(0)
	a.ins(1)
	a.ins(1)
	a.ins(1)
	a.ins(1)
	a.cost = 0 // execution starts at pc 5
	var w []byte
	put := func(b []byte) uint32 { off := len(w); w = append(w, b...); return uint32(rw + off) }
	gas := 0
	gasAfter := []int{0}
	for _, op := range ops {
		k := 0
		if len(op) > 1 {
			k, _ = strconv.Atoi(op[1:])
		}
		before := a.cost
		extra := 10
		switch op[0] {
		case 'w':
			a.loadImm(7, put(keyOf(k)))
			a.loadImm(8, 2)
			a.loadImm(9, put(valOf(k)))
			a.loadImm(10, 3)
			a.ecalli(4)
		case 'd':
			a.loadImm(7, put(keyOf(k)))
			a.loadImm(8, 2)
			a.loadImm(9, 0)
			a.loadImm(10, 0)
			a.ecalli(4)
		case 't':
			memo := make([]byte, 128)
			memo[0] = byte(k)
			a.loadImm(7, receiver)
			a.loadImm(8, uint32(100+k))
			a.loadImm(9, 10)
			a.loadImm(10, put(memo))
			a.ecalli(20)
			extra += 10
		case 'y':
			a.loadImm(7, put(hashOf(0xEE, k)))
			a.ecalli(25)
		case 'p':
			bl := blobOf(k)
			a.loadImm(7, 0xFFFFFFFF)
			a.loadImm(8, put(bl))
			a.loadImm(9, uint32(len(bl)))
			a.ecalli(26)
		case 'u':
			a.loadImm(7, put(hashOf(0xC0, k)))
			a.loadImm(8, 0)
			a.loadImm(9, 0)
			a.ecalli(19)
		case 'n':
			a.loadImm(7, put(hashOf(0xAA, 0)))
			a.loadImm(8, 33)
			a.loadImm(9, 0)
			a.loadImm(10, 0)
			a.loadImm(11, 0)
			a.loadImm(12, 0)
			a.ecalli(18)
		case 'c':
			a.ecalli(17)
		default:
			panic("verifh: bad op " + op)
		}
		gas += (a.cost - before) + extra
		gasAfter = append(gasAfter, gas)
	}
	before := a.cost
	switch {
	case strings.HasPrefix(end, "h32:"):
		k, _ := strconv.Atoi(end[4:])
		a.loadImm(7, put(hashOf(0x0F, k)))
		a.loadImm(8, 32)
		a.ins(50, 0)
	case end == "h0":
		a.loadImm(7, 0)
		a.loadImm(8, 0)
		a.ins(50, 0)
	case end == "hx":
		a.loadImm(7, put([]byte{1, 2, 3, 4, 5}))
		a.loadImm(8, 5)
		a.ins(50, 0)
	default: // trap, and the tail of an out-of-gas program
		a.ins(0)
	}
	gas += a.cost - before
	return built{code: standard(w, a.blob()), gasAfter: gasAfter, total: gas}
}

func mkAccount(code []byte, balance uint64) types.ServiceAccount {
	acc := types.ServiceAccount{PreimageLookup: types.PreimagesMapEntry{}, LookupDict: types.LookupMetaMapEntry{}, StorageDict: types.Storage{}}
	acc.ServiceInfo.Balance = types.U64(balance)
	if code != nil {
		mc := types.MetaCode{Metadata: []byte{0x41}, Code: code}
		enc, err := types.NewEncoder().Encode(&mc)
		if err != nil {
			panic("verifh: metacode")
		}
		hh := hash.Blake2bHash(enc)
		acc.ServiceInfo.CodeHash = hh
		acc.PreimageLookup[hh] = enc
		acc.LookupDict[types.LookupMetaMapkey{Hash: hh, Length: types.U32(len(enc))}] = types.TimeSlotSet{0}
	}
	return acc
}

var endings = []string{"h0", "hx", "trap", "h32", "oog"}

func gen(rng *h.Rng, tier string, emit func(string)) {
	st := h.Stats{}
	n := 4000
	if tier == "thorough" {
		n = 100000
	}
	kinds := "wdtypunc"
	for i := 0; i < n; i++ {
		nops := rng.Intn(14)
		var ops []string
		for j := 0; j < nops; j++ {
			c := kinds[rng.Intn(len(kinds))]
			if rng.Chance(1, 4) {
				c = 'c'
			}
			switch c {
			case 'n', 'c':
				ops = append(ops, string(c))
			case 'd':
				k := rng.Intn(6)
				if rng.Chance(1, 3) {
					k = 20 + rng.Intn(3) // an entry still held as a raw key-value
				}
				ops = append(ops, fmt.Sprintf("d%d", k))
			case 'w':
				k := rng.Intn(6)
				if rng.Chance(1, 3) {
					k = 20 + rng.Intn(3)
				}
				ops = append(ops, fmt.Sprintf("w%d", k))
			case 'p':
				ops = append(ops, fmt.Sprintf("p%d", rng.Intn(4)))
			default:
				ops = append(ops, fmt.Sprintf("%c%d", c, rng.Intn(30)))
			}
		}
		e := endings[rng.Intn(len(endings))]
		switch e {
		case "h32":
			e = fmt.Sprintf("h32:%d", rng.Intn(200))
		case "oog":
			e = fmt.Sprintf("oog:%d", rng.Intn(nops+1))
		}
		st.Inc("end-" + strings.Split(e, ":")[0])
		hasC := false
		for _, o := range ops {
			if o == "c" {
				hasC = true
			}
		}
		if hasC {
			st.Inc("with-checkpoint")
		}
		emit("psia " + e + " " + strings.Join(ops, " "))
	}
	h.EmitStats(emit, st)
}

func tagsStr(l []int) string {
	if len(l) == 0 {
		return "-"
	}
	var p []string
	for _, x := range l {
		p = append(p, strconv.Itoa(x))
	}
	return strings.Join(p, ",")
}

func run(input string) string {
	f := strings.Fields(input)
	end := f[1]
	ops := f[2:]
	b := assemble(ops, end)
	gas := b.total + 1000
	if strings.HasPrefix(end, "oog:") {
		j, _ := strconv.Atoi(end[4:])
		if j >= len(ops) {
			// all operations complete; gas runs out at the trailing trap
			gas = b.gasAfter[len(ops)]
		} else {
			// pays for the first j operations and for part of operation j+1 (never its host call)
			gas = b.gasAfter[j] + (b.gasAfter[j+1]-b.gasAfter[j])/4
		}
	}
	types.SetTinyMode()
	const bal = 1_000_000
	acc := mkAccount(b.code, bal)
	// solicit the blobs the program may provide
	for k := 0; k < 4; k++ {
		bl := blobOf(k)
		acc.LookupDict[types.LookupMetaMapkey{Hash: hash.Blake2bHash(bl), Length: types.U32(len(bl))}] = types.TimeSlotSet{}
	}
	acc.ServiceInfo.Items += 3
	acc.ServiceInfo.Bytes += 3 * (34 + 2 + 3)
	d := types.ServiceAccountState{self: acc, receiver: mkAccount(nil, 5000)}
	ps := types.PartialStateSet{
		ServiceAccounts: d,
		ValidatorKeys:   make(types.ValidatorsData, types.ValidatorsCount),
		Authorizers:     make(types.AuthQueues, types.CoresCount),
		Bless:           1, Designate: 2, CreateAcct: 3,
		Assign:      make(types.ServiceIDList, types.CoresCount),
		AlwaysAccum: types.AlwaysAccumulateMap{},
	}
	for c := range ps.Authorizers {
		ps.Authorizers[c] = make(types.AuthQueue, types.AuthQueueSize)
	}
	origCode := acc.ServiceInfo.CodeHash
	// three storage entries of the service that are still held as raw (unattributed) key-values
	var raw types.StateKeyVals
	rawKeys := map[types.StateKey]int{}
	for k := 20; k <= 22; k++ {
		kv := merklization.WrapEncodeDelta2KeyVal(self, keyOf(k), nil)
		kv.Value = []byte{byte(k), 0x52, 0x52}
		raw = append(raw, kv)
		rawKeys[kv.Key] = k
	}
	res := PVM.Psi_A(ps, 7, self, types.Gas(gas), nil, types.Entropy{}, raw)
	out := res.PartialStateSet.ServiceAccounts
	me, ok := out[self]
	if !ok {
		return "self-missing"
	}
	var store []int
	for k := range me.StorageDict {
		if len(k) == 2 && k[0] == 0x4B {
			store = append(store, int(k[1]))
		} else {
			store = append(store, 1000)
		}
	}
	sort.Ints(store)
	var ts []int
	for _, t := range res.DeferredTransfers {
		if t.SenderID != self || t.ReceiverID != receiver || int(t.Balance) != 100+int(t.Memo[0]) || t.GasLimit != 10 {
			ts = append(ts, 9999)
		} else {
			ts = append(ts, int(t.Memo[0]))
		}
	}
	y := "-"
	if res.Result != nil {
		y = fmt.Sprintf("%d", res.Result[1])
		if res.Result[0] != 0xEE && res.Result[0] != 0x0F {
			y = "bad"
		}
	}
	var pv []int
	for _, sb := range res.ServiceBlobs {
		if sb.ServiceID == self && len(sb.Blob) == 8 && sb.Blob[0] == 0xB0 {
			pv = append(pv, int(sb.Blob[1]))
		} else {
			pv = append(pv, 999)
		}
	}
	sort.Ints(pv)
	code := 0
	if me.ServiceInfo.CodeHash != origCode {
		code = int(me.ServiceInfo.CodeHash[1])
		if me.ServiceInfo.CodeHash[0] != 0xC0 {
			code = 9999
		}
	}
	created := len(out) - 2
	spent := int64(bal) - int64(me.ServiceInfo.Balance)
	rcv := "same"
	if r, ok := out[receiver]; !ok || r.ServiceInfo.Balance != 5000 {
		rcv = "changed"
	}
	var rawLeft []int
	for _, kv := range res.StorageKeyVal {
		k, ok := rawKeys[kv.Key]
		if !ok || len(kv.Value) != 3 || int(kv.Value[0]) != k {
			k = 999
		}
		rawLeft = append(rawLeft, k)
	}
	return fmt.Sprintf("store=%s raw=%s t=%s y=%s p=%s code=%d new=%d spent=%d rcv=%s", tagsStr(store), tagsStr(rawLeft), tagsStr(ts), y, tagsStr(pv), code, created, spent, rcv)
}

func main() { h.Main(gen, run) }
