//go:build verif

// C19 harness: Merkle mountain range append / super-peak of internal/utilities/mmr and its user
// recent_history.AppendAndCommitMmr.
//
// A peak list token is "[]" (empty) or a comma list whose entries are 32-byte hex or "_" (nil hole).
// Items are 32-byte hex or "nil".  <h> = k (Keccak-256) | b (Blake2b-256) is the merge hash.
//
//	hist <h> x...            NewMMR, AppendOne(x) for every item.
//	rest <h> <peaks> x...    NewMMRFromPeaks(restored peak list), AppendOne(x) for every item.
//	aac <peaks> x...         belt = Mmr{peaks}; (belt, c) = AppendAndCommitMmr(belt, x) for every item.
//	   output of the three: one token "<peaks>=<superpeak>" per step, then the aliasing verdict:
//	   every peak list returned earlier (and the restored list the caller passed in, and the items)
//	   is re-read at the end of the history — after a further append has been branched off every one of
//	   them — and compared with the snapshot taken when it was handed out: "alias-ok" or "ALIASED:<step>".
//	   Restored lists are given spare capacity (as decoded or re-sliced lists may have).
//	sp <peaks>               SuperPeak(peaks)                     -> hex
//	P <h> <n> <peaks> <l>    P(peaks, l, n)                       -> peaks, " INPUT-MUTATED" if so
//	R <i> <peaks> <v>        Replace(peaks, i, v) (v may be "_")  -> peaks, " INPUT-MUTATED" if so
package main

import (
	"fmt"
	"strings"

	"github.com/New-JAMneration/JAM-Protocol/internal/recent_history"
	"github.com/New-JAMneration/JAM-Protocol/internal/types"
	"github.com/New-JAMneration/JAM-Protocol/internal/utilities/hash"
	"github.com/New-JAMneration/JAM-Protocol/internal/utilities/mmr"
	h "github.com/New-JAMneration/JAM-Protocol/internal/verifh"
)

func pickHash(s string) mmr.HashFunction {
	if s == "b" {
		return hash.Blake2bHash
	}
	return hash.KeccakHash
}

func parsePeak(t string) types.MmrPeak {
	if t == "_" || t == "nil" {
		return nil
	}
	var o types.OpaqueHash
	copy(o[:], h.UnHex(t))
	return &o
}

func parsePeaks(t string) []types.MmrPeak {
	if t == "[]" {
		return make([]types.MmrPeak, 0, 4)
	}
	parts := strings.Split(t, ",")
	// spare capacity, as a decoded or re-sliced list may have: an append that writes in place would
	// then share the caller's backing array
	r := make([]types.MmrPeak, len(parts), len(parts)+4)
	for i, p := range parts {
		r[i] = parsePeak(p)
	}
	return r
}

// branchAll appends a different item to every peak list handed out earlier (a second history
// branching from each earlier state), so that results sharing memory with them show up in verdict.
func branchAll(snaps []snap, hf mmr.HashFunction) {
	for k := range snaps {
		other := types.OpaqueHash{0xEE, byte(k), byte(k >> 8)}
		mmr.NewMMRFromPeaks(snaps[k].list, hf).AppendOne(&other)
		other2 := types.OpaqueHash{0xDD, byte(k)}
		recent_history.AppendAndCommitMmr(types.Mmr{Peaks: snaps[k].list}, other2)
	}
}

func showPeaks(r []types.MmrPeak) string {
	if len(r) == 0 {
		return "[]"
	}
	s := make([]string, len(r))
	for i, p := range r {
		if p == nil {
			s[i] = "_"
		} else {
			s[i] = h.Hex((*p)[:])
		}
	}
	return strings.Join(s, ",")
}

// snapshot of a peak list handed to (or by) a caller
type snap struct {
	list []types.MmrPeak    // the very slice
	ptrs []types.MmrPeak    // its entries at hand-out time
	vals []types.OpaqueHash // the hashes they pointed to
}

func takeSnap(r []types.MmrPeak) snap {
	s := snap{list: r, ptrs: append([]types.MmrPeak(nil), r...), vals: make([]types.OpaqueHash, len(r))}
	for i, p := range r {
		if p != nil {
			s.vals[i] = *p
		}
	}
	return s
}

func (s snap) intact() bool {
	if len(s.list) != len(s.ptrs) {
		return false
	}
	for i := range s.ptrs {
		if s.list[i] != s.ptrs[i] {
			return false
		}
		if s.ptrs[i] != nil && *s.ptrs[i] != s.vals[i] {
			return false
		}
	}
	return true
}

func verdict(snaps []snap) string {
	for k, s := range snaps {
		if !s.intact() {
			return fmt.Sprintf("ALIASED:%d", k)
		}
	}
	return "alias-ok"
}

// ---------------------------------------------------------------------------------------------

func randHash(rng *h.Rng) string { return h.Hex(rng.Bytes(32)) }

func randPeaks(rng *h.Rng, n int, pattern int) string {
	if n == 0 {
		return "[]"
	}
	s := make([]string, n)
	for i := range s {
		if pattern>>uint(i)&1 == 1 {
			s[i] = randHash(rng)
		} else {
			s[i] = "_"
		}
	}
	return strings.Join(s, ",")
}

func items(rng *h.Rng, n int, nilEvery int) string {
	s := make([]string, n)
	for i := range s {
		if nilEvery > 0 && rng.Intn(nilEvery) == 0 {
			s[i] = "nil"
		} else {
			s[i] = randHash(rng)
		}
	}
	return strings.Join(s, " ")
}

func gen(rng *h.Rng, tier string, emit func(string)) {
	st := h.Stats{}
	thorough := tier == "thorough"
	mul := 1
	if thorough {
		mul = 8
	}
	line := func(kind string, parts ...string) {
		var nz []string
		for _, p := range parts {
			if p != "" {
				nz = append(nz, p)
			}
		}
		emit(strings.Join(nz, " "))
		st.Inc(kind)
		if nz[0] == "hist" || nz[0] == "rest" || nz[0] == "aac" {
			// every item of a history is one intermediate state compared with the model
			st["states-compared"] += len(strings.Fields(parts[len(parts)-1]))
		}
	}
	// every history length 0..300: one long history exposes every prefix (each intermediate state
	// is printed), and every length is also run as its own history so that the end-of-history
	// aliasing re-read happens at every length
	for rep := 0; rep < 3*mul; rep++ {
		hs := "k"
		if rep%3 == 2 {
			hs = "b"
		}
		line("hist-300", "hist", hs, items(rng, 300, 0))
	}
	step := 1
	for n := 0; n <= 300; n += step {
		line("hist-len", "hist", "k", items(rng, n, 0))
		if n >= 70 && !thorough {
			step = 7
		}
	}
	for rep := 0; rep < 20*mul; rep++ { // nil items interspersed (AppendOne ignores them)
		line("hist-nil", "hist", "k", items(rng, rng.Intn(40), 3))
	}
	for rep := 0; rep < 30*mul; rep++ { // all-zero hashes are ordinary items (e.g. the root of an empty output list), not holes
		n := 1 + rng.Intn(24)
		s := make([]string, n)
		for i := range s {
			if rng.Intn(3) == 0 {
				s[i] = strings.Repeat("00", 32)
			} else {
				s[i] = randHash(rng)
			}
		}
		if rep%3 == 0 {
			s[0] = strings.Repeat("00", 32)
		}
		line("hist-zero-hash", "hist", []string{"k", "b"}[rep%2], strings.Join(s, " "))
	}
	for rep := 0; rep < 20*mul; rep++ { // repeated equal items: position must still matter
		x := randHash(rng)
		n := rng.Intn(40)
		s := make([]string, n)
		for i := range s {
			s[i] = x
		}
		line("hist-equal", "hist", "k", strings.Join(s, " "))
	}
	// restored peak lists with nil holes: every hole pattern up to 7 peaks, then random longer ones
	for n := 0; n <= 7; n++ {
		for pat := 0; pat < 1<<uint(n); pat++ {
			for rep := 0; rep < mul; rep++ {
				hs := "k"
				if (pat+rep)%5 == 4 {
					hs = "b"
				}
				line("rest", "rest", hs, randPeaks(rng, n, pat), items(rng, 1+rng.Intn(12), 0))
				line("aac", "aac", randPeaks(rng, n, pat), items(rng, 1+rng.Intn(12), 0))
				line("sp", "sp", randPeaks(rng, n, pat))
				for k := 0; k <= n+1; k++ {
					line("P", "P", hs, fmt.Sprint(k), randPeaks(rng, n, pat), randHash(rng))
					v := "_"
					if rng.Bool() {
						v = randHash(rng)
					}
					line("R", "R", fmt.Sprint(k), randPeaks(rng, n, pat), v)
				}
			}
		}
	}
	for rep := 0; rep < 200*mul; rep++ {
		n := 8 + rng.Intn(9)
		pat := int(rng.U64() & ((1 << uint(n)) - 1))
		if rng.Chance(1, 4) { // long run of present peaks: long carry chains
			pat |= (1 << uint(rng.Intn(n)+1)) - 1
		}
		line("rest-long", "rest", "k", randPeaks(rng, n, pat), items(rng, 1+rng.Intn(40), 8))
		line("aac-long", "aac", randPeaks(rng, n, pat), items(rng, 1+rng.Intn(40), 0))
		line("sp-long", "sp", randPeaks(rng, n, pat))
	}
	// restored EMPTY lists (with spare capacity): the first append must not write into the caller's array
	for rep := 0; rep < 10*mul; rep++ {
		line("rest-empty", "rest", "k", "[]", items(rng, 1+rng.Intn(20), 0))
		line("aac-empty", "aac", "[]", items(rng, 1+rng.Intn(20), 0))
	}
	// AppendAndCommitMmr from the empty belt over long histories
	for rep := 0; rep < 2*mul; rep++ {
		line("aac-300", "aac", "[]", items(rng, 300, 0))
	}
	h.EmitStats(emit, st)
}

func run(input string) string {
	f := strings.Fields(input)
	switch f[0] {
	case "hist", "rest":
		hf := pickHash(f[1])
		var m *mmr.MMR
		var snaps []snap
		rest := f[2:]
		if f[0] == "rest" {
			restored := parsePeaks(f[2])
			snaps = append(snaps, takeSnap(restored))
			m = mmr.NewMMRFromPeaks(restored, hf)
			rest = f[3:]
		} else {
			m = mmr.NewMMR(hf)
		}
		var out []string
		var itemPtrs []types.MmrPeak
		var itemVals []types.OpaqueHash
		for _, t := range rest {
			x := parsePeak(t)
			r := m.AppendOne(x)
			if x != nil {
				itemPtrs = append(itemPtrs, x)
				itemVals = append(itemVals, *x)
			}
			snaps = append(snaps, takeSnap(r))
			sp := m.SuperPeak(r)
			out = append(out, showPeaks(r)+"="+h.Hex(sp[:]))
		}
		branchAll(snaps, hf)
		v := verdict(snaps)
		for i, p := range itemPtrs {
			if *p != itemVals[i] {
				v = "ALIASED:item"
			}
		}
		out = append(out, v)
		return strings.Join(out, " ")
	case "aac":
		belt := types.Mmr{Peaks: parsePeaks(f[1])}
		snaps := []snap{takeSnap(belt.Peaks)}
		var out []string
		for _, t := range f[2:] {
			x := parsePeak(t)
			nb, c := recent_history.AppendAndCommitMmr(belt, *x)
			snaps = append(snaps, takeSnap(nb.Peaks))
			out = append(out, showPeaks(nb.Peaks)+"="+h.Hex(c[:]))
			belt = nb
		}
		branchAll(snaps, hash.KeccakHash)
		out = append(out, verdict(snaps))
		return strings.Join(out, " ")
	case "sp":
		p := parsePeaks(f[1])
		s := takeSnap(p)
		sp := mmr.NewMMR(hash.KeccakHash).SuperPeak(p)
		if !s.intact() {
			return h.Hex(sp[:]) + " INPUT-MUTATED"
		}
		return h.Hex(sp[:])
	case "P":
		m := mmr.NewMMR(pickHash(f[1]))
		n := h.I(f[2])
		p := parsePeaks(f[3])
		s := takeSnap(p)
		r := m.P(p, parsePeak(f[4]), n)
		out := showPeaks(r)
		if !s.intact() {
			out += " INPUT-MUTATED"
		}
		return out
	case "R":
		m := mmr.NewMMR(hash.KeccakHash)
		i := h.I(f[1])
		p := parsePeaks(f[2])
		s := takeSnap(p)
		r := m.Replace(p, i, parsePeak(f[3]))
		out := showPeaks(r)
		if !s.intact() {
			out += " INPUT-MUTATED"
		}
		return out
	}
	panic("verifh: bad case " + input)
}

func main() { h.Main(gen, run) }
