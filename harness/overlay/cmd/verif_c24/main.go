//go:build verif

// C24 harness: authorizer pool transition over block histories.
//
// input (one case = one history, whitespace separated tokens):
//
//	<C> <O> <api> <nq> <nb>  P <C pool tokens>  Q <nq*C queue tokens>  then nb blocks:  B <slot> <qidx> <ng> {core:auth}*ng
//
// pool/queue token: comma separated authorizer ids, "-" = empty (non-nil) pool, "~" = nil pool.
// api = stf  : authorization.STFAlpha2AlphaPrime called directly, the returned pools are the next prior (as the node does)
// api = auth : authorization.Authorization() through the blockchain singleton (prior alpha, latest block, posterior varphi),
//
//	the posterior alpha becomes the next prior (what StateCommit does)
//
// output: the posterior pools after every block, blocks separated by "/", pools by ";" (ids, hex if not an id image),
// "err" if the transition failed (history stops there);  then " # alias=<none|prior-mutated:<n>/<blocks>>" : whether the
// PRIOR pools object (deep snapshot taken before each call) was changed by the call (informational, not compared).
package main

import (
	"encoding/binary"
	"fmt"
	"os"
	"strconv"
	"strings"

	"github.com/New-JAMneration/JAM-Protocol/internal/authorization"
	"github.com/New-JAMneration/JAM-Protocol/internal/blockchain"
	"github.com/New-JAMneration/JAM-Protocol/internal/types"
	h "github.com/New-JAMneration/JAM-Protocol/internal/verifh"
	"github.com/New-JAMneration/JAM-Protocol/logger"
)

// id 0 is the all-zero hash (an ordinary authorizer value: zero-initialised queues feed it into the pools)
func idHash(k uint64) (o types.OpaqueHash) {
	if k == 0 {
		return o
	}
	binary.LittleEndian.PutUint64(o[:8], k)
	for i := 8; i < 32; i++ {
		o[i] = byte(k*31 + uint64(i)*7 + 3)
	}
	return o
}

func hashID(o types.OpaqueHash) string {
	k := binary.LittleEndian.Uint64(o[:8])
	if idHash(k) == o {
		return strconv.FormatUint(k, 10)
	}
	return "x" + h.Hex(o[:])
}

func parseIDs(tok string) []types.OpaqueHash {
	if tok == "~" {
		return nil
	}
	out := []types.OpaqueHash{}
	if tok == "-" {
		return out
	}
	for _, s := range strings.Split(tok, ",") {
		out = append(out, idHash(h.U(s)))
	}
	return out
}

func fmtPool(p []types.OpaqueHash) string {
	if len(p) == 0 {
		return "-"
	}
	s := make([]string, len(p))
	for i, x := range p {
		s[i] = hashID(x)
	}
	return strings.Join(s, ",")
}

func fmtPools(a types.AuthPools) string {
	s := make([]string, len(a))
	for i, p := range a {
		q := make([]types.OpaqueHash, len(p))
		for j, x := range p {
			q[j] = types.OpaqueHash(x)
		}
		s[i] = fmtPool(q)
	}
	return strings.Join(s, ";")
}

func deepPools(a types.AuthPools) [][]types.OpaqueHash {
	out := make([][]types.OpaqueHash, len(a))
	for i, p := range a {
		out[i] = make([]types.OpaqueHash, len(p))
		for j, x := range p {
			out[i][j] = types.OpaqueHash(x)
		}
	}
	return out
}

func samePools(a types.AuthPools, snap [][]types.OpaqueHash) bool {
	if len(a) != len(snap) {
		return false
	}
	for i := range a {
		if len(a[i]) != len(snap[i]) {
			return false
		}
		for j := range a[i] {
			if types.OpaqueHash(a[i][j]) != snap[i][j] {
				return false
			}
		}
	}
	return true
}

func idsTok(ids []uint64) string {
	if len(ids) == 0 {
		return "-"
	}
	s := make([]string, len(ids))
	for i, x := range ids {
		s[i] = strconv.FormatUint(x, 10)
	}
	return strings.Join(s, ",")
}

func gen(rng *h.Rng, tier string, emit func(string)) {
	st := h.Stats{}
	O := types.AuthPoolMaxSize
	Q := types.AuthQueueSize
	mult := 1
	if tier == "thorough" {
		mult = 12
	}
	one := func(C int, api string, nb int, universe int, kind string) {
		r := rng.Fork()
		nq := 1 + r.Intn(3)
		// authorizer ids: 0 (the zero hash) is drawn like any other id; in "zero" cases it dominates (zero-filled queues)
		zeroHeavy := r.Chance(1, 4)
		if zeroHeavy {
			st.Inc("case-zero-hash-heavy")
		}
		pick := func() uint64 {
			if zeroHeavy && r.Chance(1, 2) {
				return 0
			}
			return uint64(r.Intn(universe + 1))
		}
		var sb strings.Builder
		fmt.Fprintf(&sb, "%d %d %s %d %d P", C, O, api, nq, nb)
		for c := 0; c < C; c++ {
			var n int
			switch r.Intn(10) {
			case 0:
				n = 0
			case 1, 2:
				n = O
			case 3:
				n = O - 1
			default:
				n = r.Intn(O + 1)
			}
			if api == "stf" && r.Chance(1, 12) {
				n = O + 1 + r.Intn(4) // over-long prior pool: outside the state invariant, the transition must still truncate
				st.Inc("pool-overlong")
			}
			ids := make([]uint64, n)
			for i := range ids {
				ids[i] = pick()
			}
			tok := idsTok(ids)
			if n == 0 && r.Chance(1, 3) {
				tok = "~"
				st.Inc("pool-nil")
			}
			sb.WriteString(" " + tok)
		}
		sb.WriteString(" Q")
		for k := 0; k < nq*C; k++ {
			ids := make([]uint64, Q)
			zq := r.Chance(1, 8) // a zero-filled queue
			for i := range ids {
				ids[i] = pick()
				if zq {
					ids[i] = 0
				}
			}
			sb.WriteString(" " + idsTok(ids))
		}
		slot := uint64(r.U64() >> uint(32+r.Intn(32)))
		for b := 0; b < nb; b++ {
			switch r.Intn(8) {
			case 0:
				slot = uint64(uint32(r.U64()))
			case 1:
				slot = []uint64{0, 79, 80, 81, 159, 160, 4294967295, 4294967294, 4294967280}[r.Intn(9)]
			default:
				slot = uint64(uint32(slot + 1 + uint64(r.Intn(3))))
			}
			ng := r.Intn(C + 2)
			if C > 8 {
				ng = r.Intn(C/2 + 1)
			}
			if r.Chance(1, 5) {
				ng = 0
			}
			fmt.Fprintf(&sb, " B %d %d %d", slot, r.Intn(nq), ng)
			for g := 0; g < ng; g++ {
				a := pick()
				if a == 0 {
					st.Inc("guarantee-zero-hash-authorizer")
				}
				if r.Chance(1, 6) {
					a = uint64(1000 + r.Intn(50)) // certainly absent from every pool
					st.Inc("guarantee-absent-authorizer")
				}
				fmt.Fprintf(&sb, " %d:%d", r.Intn(C), a)
				st.Inc("guarantees")
			}
			st.Inc("blocks")
		}
		emit(sb.String())
		st.Inc("case-" + kind + "-" + api)
	}
	for i := 0; i < 1500*mult; i++ {
		api := "stf"
		if i%2 == 1 {
			api = "auth"
		}
		one(2, api, 4+rng.Intn(40), 3+rng.Intn(12), "tiny")
	}
	for i := 0; i < 300*mult; i++ {
		api := "stf"
		if i%2 == 1 {
			api = "auth"
		}
		one(1+rng.Intn(7), api, 4+rng.Intn(30), 3+rng.Intn(12), "customC")
	}
	for i := 0; i < 4*mult; i++ {
		api := "stf"
		if i%2 == 1 {
			api = "auth"
		}
		one(341, api, 6+rng.Intn(10), 6+rng.Intn(30), "full")
	}
	h.EmitStats(emit, st)
}

func run(input string) string {
	f := strings.Fields(input)
	C := h.I(f[0])
	O := h.I(f[1])
	api := f[2]
	nq := h.I(f[3])
	nb := h.I(f[4])
	if O != types.AuthPoolMaxSize {
		panic("verifh: O differs from types.AuthPoolMaxSize")
	}
	types.SetTinyMode()
	types.CoresCount = C
	pos := 5
	if f[pos] != "P" {
		panic("verifh: expected P")
	}
	pos++
	alpha := make(types.AuthPools, C)
	for c := 0; c < C; c++ {
		ids := parseIDs(f[pos])
		pos++
		if ids == nil {
			alpha[c] = nil
		} else {
			p := make(types.AuthPool, len(ids))
			for i, x := range ids {
				p[i] = types.AuthorizerHash(x)
			}
			alpha[c] = p
		}
	}
	if f[pos] != "Q" {
		panic("verifh: expected Q")
	}
	pos++
	queues := make([]types.AuthQueues, nq)
	for k := 0; k < nq; k++ {
		queues[k] = make(types.AuthQueues, C)
		for c := 0; c < C; c++ {
			ids := parseIDs(f[pos])
			pos++
			q := make(types.AuthQueue, len(ids))
			for i, x := range ids {
				q[i] = types.AuthorizerHash(x)
			}
			queues[k][c] = q
		}
	}
	var cs *blockchain.ChainState
	if api == "auth" {
		blockchain.ResetInstance()
		cs = blockchain.GetInstance()
		cs.GetPriorStates().SetAlpha(alpha)
	}
	outs := make([]string, 0, nb)
	mutated := 0
	blocks := 0
	for b := 0; b < nb; b++ {
		if f[pos] != "B" {
			panic("verifh: expected B")
		}
		slot := types.TimeSlot(h.U(f[pos+1]))
		varphi := queues[h.I(f[pos+2])]
		ng := h.I(f[pos+3])
		pos += 4
		gs := make(types.GuaranteesExtrinsic, 0, ng)
		for g := 0; g < ng; g++ {
			ca := strings.SplitN(f[pos], ":", 2)
			pos++
			var rep types.WorkReport
			rep.CoreIndex = types.CoreIndex(h.U(ca[0]))
			rep.AuthorizerHash = idHash(h.U(ca[1]))
			gs = append(gs, types.ReportGuarantee{Report: rep})
		}
		blocks++
		var post types.AuthPools
		var err error
		if api == "stf" {
			snap := deepPools(alpha)
			prior := alpha
			post, err = authorization.STFAlpha2AlphaPrime(slot, gs, alpha, varphi)
			if !samePools(prior, snap) {
				mutated++
			}
		} else {
			prior := cs.GetPriorStates().GetAlpha()
			snap := deepPools(prior)
			cs.AddBlock(types.Block{Header: types.Header{Slot: slot}, Extrinsic: types.Extrinsic{Guarantees: gs}})
			cs.GetPosteriorStates().SetVarphi(varphi)
			err = authorization.Authorization()
			if err == nil {
				post = cs.GetPosteriorStates().GetAlpha()
			}
			if !samePools(cs.GetPriorStates().GetAlpha(), snap) {
				mutated++
			}
		}
		if err != nil || post == nil {
			outs = append(outs, "err")
			break
		}
		outs = append(outs, fmtPools(post))
		if api == "stf" {
			alpha = post
		} else {
			// what ChainState.StateCommit does for this component: posterior becomes prior, posterior is reset
			cs.GetPriorStates().SetAlpha(post)
			cs.GetPosteriorStates().SetAlpha(make(types.AuthPools, C))
		}
	}
	alias := "none"
	if mutated > 0 {
		alias = fmt.Sprintf("prior-mutated:%d/%d", mutated, blocks)
	}
	return strings.Join(outs, "/") + " # alias=" + alias
}

func main() {
	os.Setenv("JAM_FUZZ", "1") // in-memory repositories only: the harness must not create a database on disk
	logger.Disable()
	h.Main(gen, run)
}
