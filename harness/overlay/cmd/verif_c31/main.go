//go:build verif

// C31 harness: historical lookup and preimage admission / integration.
//
// case inputs (whitespace separated tokens; "-" = empty byte string / empty list):
//
//	vt <t> <slots>                       service_account.isValidTime(slots, t) and HistoricalLookup on a one-entry account
//	                                     output: <0|1> <0|1>
//	hl <t> <hash> <STATE1>               HistoricalLookup(account, t, hash)          output: none | some <blobhex>
//	hc <hist|look> <w7> <w10> <w11> <t> <self> <hash> <STATE>
//	                                     the host calls historical_lookup / lookup    output: <exit> <w7> <outbuf hex>
//	adm <tau> <STATE> <KVS> <EPS>        ValidatePreimageExtrinsics, then ProcessPreimageExtrinsics through the singleton
//	                                     on copies of the same state
//	                                     output: <ok|unsorted|unneeded> <flags> ; <state dump> ; <raw keys left>
//	prov <tau> <STATE> <EPS>             accumulation.Provide                          output: <state dump>
//
//	STATE = S <n> { <sid> <np> {<hash> <blob>}*np <nl> {<hash> <len> <slots>}*nl }*n       (STATE1: exactly one service)
//	a blob token "~" is the nil byte slice (what the codec yields for a zero-length blob), "-" the empty non-nil slice
//	KVS   = K <n> {<key31> <value>}*n          EPS = E <n> {<requester> <blob>}*n       slots = a,b,c | -
//
// state dump: services by ascending id  "<sid>{P<hash>=<blob>,...}{L<hash>/<len>=<slots>,...}" entries sorted as strings.
// flags: "v" if validation changed its inputs, "e" if the block's preimage extrinsic was changed by integration, else "-".
package main

import (
	"fmt"
	"os"
	"sort"
	"strconv"
	"strings"

	"github.com/New-JAMneration/JAM-Protocol/PVM"
	"github.com/New-JAMneration/JAM-Protocol/internal/accumulation"
	"github.com/New-JAMneration/JAM-Protocol/internal/blockchain"
	"github.com/New-JAMneration/JAM-Protocol/internal/service_account"
	"github.com/New-JAMneration/JAM-Protocol/internal/types"
	PreimageErrorCode "github.com/New-JAMneration/JAM-Protocol/internal/types/error_codes/preimages"
	"github.com/New-JAMneration/JAM-Protocol/internal/utilities/hash"
	m "github.com/New-JAMneration/JAM-Protocol/internal/utilities/merklization"
	h "github.com/New-JAMneration/JAM-Protocol/internal/verifh"
	"github.com/New-JAMneration/JAM-Protocol/logger"
)

// ------------------------------------------------------------------------------------------------ tokens
func slotsTok(l []uint64) string {
	if len(l) == 0 {
		return "-"
	}
	s := make([]string, len(l))
	for i, v := range l {
		s[i] = strconv.FormatUint(v, 10)
	}
	return strings.Join(s, ",")
}

func parseSlots(tok string) types.TimeSlotSet {
	out := types.TimeSlotSet{}
	if tok == "-" {
		return out
	}
	for _, s := range strings.Split(tok, ",") {
		out = append(out, types.TimeSlot(h.U(s)))
	}
	return out
}

// blobTok / parseBlob: "-" is the empty non-nil byte slice, "~" the nil slice (what the codec yields for a zero-length blob)
func blobTok(b []byte, nilIfEmpty bool) string {
	if len(b) == 0 && nilIfEmpty {
		return "~"
	}
	return h.Hex(b)
}
func parseBlob(tok string) types.ByteSequence {
	if tok == "~" {
		return nil
	}
	return types.ByteSequence(h.UnHex(tok))
}

type lrec struct {
	hash  []byte
	ln    uint64
	slots []uint64
}
type svc struct {
	id uint64
	p  [][2][]byte
	l  []lrec
}
type kv struct{ k, v []byte }
type ep struct {
	req  uint64
	blob []byte
}

func stateTok(ss []svc) string {
	var b strings.Builder
	fmt.Fprintf(&b, "S %d", len(ss))
	for _, s := range ss {
		fmt.Fprintf(&b, " %d %d", s.id, len(s.p))
		for _, e := range s.p {
			fmt.Fprintf(&b, " %s %s", h.Hex(e[0]), blobTok(e[1], (s.id+uint64(len(s.l)))%2 == 0))
		}
		fmt.Fprintf(&b, " %d", len(s.l))
		for _, e := range s.l {
			fmt.Fprintf(&b, " %s %d %s", h.Hex(e.hash), e.ln, slotsTok(e.slots))
		}
	}
	return b.String()
}
func kvsTok(k []kv) string {
	var b strings.Builder
	fmt.Fprintf(&b, "K %d", len(k))
	for _, e := range k {
		fmt.Fprintf(&b, " %s %s", h.Hex(e.k), h.Hex(e.v))
	}
	return b.String()
}
func epsTok(es []ep) string {
	var b strings.Builder
	fmt.Fprintf(&b, "E %d", len(es))
	for _, e := range es {
		fmt.Fprintf(&b, " %d %s", e.req, blobTok(e.blob, (e.req+uint64(len(es)))%2 == 0))
	}
	return b.String()
}

type reader struct {
	f []string
	i int
}

func (r *reader) next() string {
	if r.i >= len(r.f) {
		panic("verifh: truncated case")
	}
	s := r.f[r.i]
	r.i++
	return s
}
func (r *reader) expect(s string) {
	if r.next() != s {
		panic("verifh: expected " + s)
	}
}
func h32(b []byte) (o types.OpaqueHash) {
	if len(b) != 32 {
		panic("verifh: hash token is not 32 bytes")
	}
	copy(o[:], b)
	return o
}

func (r *reader) state() types.ServiceAccountState {
	r.expect("S")
	n := h.I(r.next())
	d := types.ServiceAccountState{}
	for i := 0; i < n; i++ {
		id := types.ServiceID(h.U(r.next()))
		a := types.ServiceAccount{PreimageLookup: types.PreimagesMapEntry{}, LookupDict: types.LookupMetaMapEntry{}, StorageDict: types.Storage{}}
		np := h.I(r.next())
		for j := 0; j < np; j++ {
			hs := h32(h.UnHex(r.next()))
			a.PreimageLookup[hs] = parseBlob(r.next())
		}
		nl := h.I(r.next())
		for j := 0; j < nl; j++ {
			hs := h32(h.UnHex(r.next()))
			ln := types.U32(h.U(r.next()))
			a.LookupDict[types.LookupMetaMapkey{Hash: hs, Length: ln}] = parseSlots(r.next())
		}
		d[id] = a
	}
	return d
}
func (r *reader) kvs() types.StateKeyVals {
	r.expect("K")
	n := h.I(r.next())
	out := types.StateKeyVals{}
	for i := 0; i < n; i++ {
		kb := h.UnHex(r.next())
		if len(kb) != 31 {
			panic("verifh: state key is not 31 bytes")
		}
		var k types.StateKey
		copy(k[:], kb)
		out = append(out, types.StateKeyVal{Key: k, Value: types.ByteSequence(h.UnHex(r.next()))})
	}
	return out
}
func (r *reader) eps() types.PreimagesExtrinsic {
	r.expect("E")
	n := h.I(r.next())
	out := types.PreimagesExtrinsic{}
	for i := 0; i < n; i++ {
		req := types.ServiceID(h.U(r.next()))
		out = append(out, types.Preimage{Requester: req, Blob: parseBlob(r.next())})
	}
	return out
}

func dump(d types.ServiceAccountState) string {
	ids := []uint64{}
	for id := range d {
		ids = append(ids, uint64(id))
	}
	sort.Slice(ids, func(i, j int) bool { return ids[i] < ids[j] })
	var b strings.Builder
	for _, id := range ids {
		a := d[types.ServiceID(id)]
		ps := []string{}
		for k, v := range a.PreimageLookup {
			ps = append(ps, "P"+h.Hex(k[:])+"="+h.Hex(v))
		}
		sort.Strings(ps)
		ls := []string{}
		for k, v := range a.LookupDict {
			sl := make([]uint64, len(v))
			for i, x := range v {
				sl[i] = uint64(x)
			}
			ls = append(ls, fmt.Sprintf("L%s/%d=%s", h.Hex(k.Hash[:]), k.Length, slotsTok(sl)))
		}
		sort.Strings(ls)
		fmt.Fprintf(&b, "%d{%s}{%s}", id, strings.Join(ps, ","), strings.Join(ls, ","))
	}
	if b.Len() == 0 {
		return "-"
	}
	return b.String()
}
func dumpKvs(k types.StateKeyVals) string {
	if len(k) == 0 {
		return "-"
	}
	s := make([]string, len(k))
	for i, e := range k {
		s[i] = h.Hex(e.Key[:]) + "=" + h.Hex(e.Value)
	}
	return strings.Join(s, ",")
}
func copyState(d types.ServiceAccountState) types.ServiceAccountState {
	out := types.ServiceAccountState{}
	for id, a := range d {
		na := types.ServiceAccount{ServiceInfo: a.ServiceInfo, PreimageLookup: types.PreimagesMapEntry{}, LookupDict: types.LookupMetaMapEntry{}, StorageDict: types.Storage{}}
		for k, v := range a.PreimageLookup {
			if v == nil {
				na.PreimageLookup[k] = nil
			} else {
				na.PreimageLookup[k] = append(types.ByteSequence{}, v...)
			}
		}
		for k, v := range a.LookupDict {
			na.LookupDict[k] = append(types.TimeSlotSet{}, v...)
		}
		out[id] = na
	}
	return out
}
func dumpEps(e types.PreimagesExtrinsic) string {
	var b strings.Builder
	for _, x := range e {
		fmt.Fprintf(&b, "%d:%s,", x.Requester, h.Hex(x.Blob))
	}
	return b.String()
}

// ------------------------------------------------------------------------------------------------ run
func run(input string) string {
	r := &reader{f: strings.Fields(input)}
	switch r.next() {
	case "vt":
		t := types.TimeSlot(h.U(r.next()))
		l := parseSlots(r.next())
		direct := service_account.VerifIsValidTime(l, t)
		blob := types.ByteSequence{1, 2, 3}
		hs := hash.Blake2bHash(blob)
		a := types.ServiceAccount{PreimageLookup: types.PreimagesMapEntry{hs: blob},
			LookupDict: types.LookupMetaMapEntry{types.LookupMetaMapkey{Hash: hs, Length: 3}: l}}
		via := service_account.HistoricalLookup(a, t, hs)
		b2i := func(b bool) int {
			if b {
				return 1
			}
			return 0
		}
		return fmt.Sprintf("%d %d", b2i(direct), b2i(via != nil && string(via) == string(blob)))
	case "hl":
		t := types.TimeSlot(h.U(r.next()))
		hs := h32(h.UnHex(r.next()))
		d := r.state()
		for _, a := range d {
			v := service_account.HistoricalLookup(a, t, hs)
			if v == nil {
				return "none"
			}
			return "some " + h.Hex(v)
		}
		return "BADCASE"
	case "hc":
		op := r.next()
		w7, w10, w11 := h.U(r.next()), h.U(r.next()), h.U(r.next())
		t := types.TimeSlot(h.U(r.next()))
		self := types.ServiceID(h.U(r.next()))
		hs := h32(h.UnHex(r.next()))
		d := r.state()
		const base = 32 * PVM.ZP
		page := &PVM.Page{Value: make([]byte, PVM.ZP), Access: PVM.MemoryReadWrite}
		copy(page.Value[0:32], hs[:])
		for i := 64; i < 64+48; i++ {
			page.Value[i] = 0xEE
		}
		mem := &PVM.Memory{Pages: map[uint32]*PVM.Page{32: page}}
		regs := PVM.Registers{}
		regs[7], regs[8], regs[9], regs[10], regs[11] = w7, base, base+64, w10, w11
		gas := PVM.Gas(1000)
		in := PVM.OmegaInput{VM: &PVM.VMState{Registers: &regs, Memory: mem, Gas: &gas}}
		in.Addition.GeneralArgs.ServiceID = &self
		in.Addition.GeneralArgs.ServiceAccountState = &d
		selfAcc := d[self]
		in.Addition.GeneralArgs.ServiceAccount = &selfAcc
		in.Addition.RefineArgs.TimeSlot = t
		var out PVM.OmegaOutput
		if op == "hist" {
			in.Operation = PVM.HistoricalLookupOp
			out = PVM.HostCallFunctions[PVM.HistoricalLookupOp](in)
		} else {
			in.Operation = PVM.LookupOp
			out = PVM.HostCallFunctions[PVM.LookupOp](in)
		}
		ex := "other"
		switch out.ExitReason {
		case PVM.ExitContinue:
			ex = "continue"
		case PVM.ExitPanic:
			ex = "panic"
		case PVM.ExitOOG:
			ex = "oog"
		}
		return fmt.Sprintf("%s %d %s", ex, regs[7], h.Hex(page.Value[64:64+48]))
	case "adm":
		tau := types.TimeSlot(h.U(r.next()))
		d := r.state()
		kvs := r.kvs()
		eps := r.eps()
		// validation against (delta, raw key-values)
		d0, k0 := dump(d), dumpKvs(kvs)
		kvArg := kvs.DeepCopy()
		err := accumulation.ValidatePreimageExtrinsics(eps, d, &kvArg)
		verdict := "ok"
		if err != nil {
			verdict = "err-other"
			if ec, ok := err.(*types.ErrorCode); ok {
				switch *ec {
				case PreimageErrorCode.PreimageUnneeded:
					verdict = "unneeded"
				case PreimageErrorCode.PrimagesNotSortedUnique:
					verdict = "unsorted"
				}
			}
		}
		flags := ""
		if dump(d) != d0 || dumpKvs(kvArg) != k0 {
			flags += "v"
		}
		// integration through the singleton, on copies of the same state
		blockchain.ResetInstance()
		cs := blockchain.GetInstance()
		e0 := dumpEps(eps)
		blk := types.Block{Header: types.Header{Slot: tau}, Extrinsic: types.Extrinsic{Preimages: eps}}
		cs.AddBlock(blk)
		cs.GetIntermediateStates().SetDeltaDoubleDagger(copyState(d))
		cs.GetPosteriorStates().SetTau(tau)
		cs.SetPostStateUnmatchedKeyVals(kvs.DeepCopy())
		if perr := accumulation.ProcessPreimageExtrinsics(); perr != nil {
			return verdict + " process-error"
		}
		post := cs.GetPosteriorStates().GetDelta()
		if dumpEps(cs.GetLatestBlock().Extrinsic.Preimages) != e0 || dumpEps(eps) != e0 {
			flags += "e"
		}
		if flags == "" {
			flags = "-"
		}
		return fmt.Sprintf("%s %s ; %s ; %s", verdict, flags, dump(post), dumpKvs(cs.GetPostStateUnmatchedKeyVals()))
	case "prov":
		tau := types.TimeSlot(h.U(r.next()))
		d := r.state()
		eps := r.eps()
		blockchain.GetInstance().GetPosteriorStates().SetTau(tau)
		sb := types.ServiceBlobs{}
		for _, e := range eps {
			sb = append(sb, types.ServiceBlob{ServiceID: e.Requester, Blob: e.Blob})
		}
		out, err := accumulation.Provide(d, sb)
		if err != nil {
			return "err"
		}
		return dump(out)
	}
	return "BADCASE"
}

// ------------------------------------------------------------------------------------------------ gen
func blake(b []byte) []byte { x := hash.Blake2bHash(b); return x[:] }

func lookupKey(s uint64, hs []byte, ln uint64) []byte {
	k := m.EncodeDelta4Key(types.ServiceID(s), types.LookupMetaMapkey{Hash: h32(hs), Length: types.U32(ln)})
	return k[:]
}
func encSlots(sl []uint64) []byte {
	out := []byte{byte(len(sl))}
	for _, s := range sl {
		out = append(out, byte(s), byte(s>>8), byte(s>>16), byte(s>>24))
	}
	return out
}

func genBlobs(rng *h.Rng) [][]byte {
	n := 6 + rng.Intn(6)
	out := [][]byte{}
	if rng.Chance(1, 3) {
		out = append(out, []byte{})
	}
	for len(out) < n {
		var b []byte
		if len(out) > 0 && rng.Chance(1, 3) { // shares a prefix with an earlier blob: exercises the byte order
			p := out[rng.Intn(len(out))]
			b = append(append([]byte{}, p...), rng.Bytes(rng.Intn(3))...)
			if rng.Bool() && len(b) > 0 {
				b[len(b)-1] ^= byte(1 + rng.Intn(255))
			}
		} else {
			b = rng.Bytes(rng.Intn(41))
		}
		dup := false
		for _, o := range out {
			if string(o) == string(b) {
				dup = true
			}
		}
		if !dup {
			out = append(out, b)
		}
	}
	return out
}

func incSlots(rng *h.Rng, n int, around uint64) []uint64 {
	out := make([]uint64, n)
	cur := uint64(0)
	if around > 30 {
		cur = around - uint64(rng.Intn(30))
	}
	for i := range out {
		cur += uint64(rng.Intn(12))
		if cur > 4294967295 {
			cur = 4294967295
		}
		out[i] = cur
	}
	return out
}

var statuses = []string{"solicited", "provided", "forgotten", "reavailable", "raw-solicited", "raw-nonempty", "absent",
	"wrong-length", "stored-but-empty-record", "raw-solicited-but-stored", "long-record", "stored-no-record", "raw-odd-value"}

// genState builds services over the blob pool; returns the per (service, blob) status for the statistics
func genState(rng *h.Rng, blobs [][]byte, tau uint64, st h.Stats, consistentOnly bool) ([]svc, []kv) {
	idPool := []uint64{0, 1, 2, 5, 77, 4294967295}
	ns := 1 + rng.Intn(3)
	ss := []svc{}
	kvs := []kv{}
	used := map[uint64]bool{}
	for len(ss) < ns {
		id := idPool[rng.Intn(len(idPool))]
		if used[id] {
			continue
		}
		used[id] = true
		s := svc{id: id}
		for _, b := range blobs {
			if rng.Chance(1, 4) {
				continue
			}
			hs := blake(b)
			ln := uint64(len(b))
			w := []int{5, 3, 2, 2, 4, 1, 3, 1, 1, 1, 1, 1, 1}
			if consistentOnly {
				w[8], w[9] = 0, 0
			}
			tot := 0
			for _, x := range w {
				tot += x
			}
			pick := rng.Intn(tot)
			k := 0
			for pick >= w[k] {
				pick -= w[k]
				k++
			}
			st.Inc("entry-" + statuses[k])
			switch statuses[k] {
			case "solicited":
				s.l = append(s.l, lrec{hs, ln, nil})
			case "provided":
				s.p = append(s.p, [2][]byte{hs, b})
				s.l = append(s.l, lrec{hs, ln, incSlots(rng, 1, tau)})
			case "forgotten":
				s.l = append(s.l, lrec{hs, ln, incSlots(rng, 2, tau)})
			case "reavailable":
				s.p = append(s.p, [2][]byte{hs, b})
				s.l = append(s.l, lrec{hs, ln, incSlots(rng, 3, tau)})
			case "raw-solicited":
				kvs = append(kvs, kv{lookupKey(id, hs, ln), []byte{0}})
			case "raw-nonempty":
				kvs = append(kvs, kv{lookupKey(id, hs, ln), encSlots(incSlots(rng, 1+rng.Intn(3), tau))})
			case "absent":
			case "wrong-length":
				s.l = append(s.l, lrec{hs, ln + 1, nil})
			case "stored-but-empty-record":
				s.p = append(s.p, [2][]byte{hs, b})
				s.l = append(s.l, lrec{hs, ln, nil})
			case "raw-solicited-but-stored":
				s.p = append(s.p, [2][]byte{hs, b})
				kvs = append(kvs, kv{lookupKey(id, hs, ln), []byte{0}})
			case "long-record":
				s.p = append(s.p, [2][]byte{hs, b})
				s.l = append(s.l, lrec{hs, ln, incSlots(rng, 4, tau)})
			case "stored-no-record":
				s.p = append(s.p, [2][]byte{hs, b})
			case "raw-odd-value": // not the one-byte encoding of the empty record
				odd := [][]byte{{}, {0, 0}, {0, 1, 2, 3, 4}, {1}, {0, 0, 0, 0, 0}}
				kvs = append(kvs, kv{lookupKey(id, hs, ln), odd[rng.Intn(len(odd))]})
			}
		}
		ss = append(ss, s)
	}
	// a few unrelated raw entries, and shuffle the raw list
	for i := rng.Intn(3); i > 0; i-- {
		kvs = append(kvs, kv{rng.Bytes(31), rng.Bytes(rng.Intn(6))})
	}
	for i := len(kvs) - 1; i > 0; i-- {
		j := rng.Intn(i + 1)
		kvs[i], kvs[j] = kvs[j], kvs[i]
	}
	return ss, kvs
}

func epLess(a, b ep) bool {
	if a.req != b.req {
		return a.req < b.req
	}
	return string(a.blob) < string(b.blob)
}

func genEps(rng *h.Rng, ss []svc, blobs [][]byte, st h.Stats) []ep {
	n := rng.Intn(6)
	if rng.Chance(1, 10) {
		n = 0
	}
	es := []ep{}
	for len(es) < n {
		var req uint64
		if rng.Chance(1, 12) {
			req = uint64(rng.Intn(4)) + 100 // unknown service
		} else {
			req = ss[rng.Intn(len(ss))].id
		}
		var b []byte
		if rng.Chance(1, 10) {
			b = rng.Bytes(rng.Intn(20)) // a blob nobody knows
		} else {
			b = blobs[rng.Intn(len(blobs))]
		}
		dup := false
		for _, e := range es {
			if e.req == req && string(e.blob) == string(b) {
				dup = true
			}
		}
		if !dup {
			es = append(es, ep{req, b})
		}
	}
	sort.Slice(es, func(i, j int) bool { return epLess(es[i], es[j]) })
	mode := rng.Intn(10)
	switch {
	case mode < 6 || len(es) < 2:
		st.Inc("eps-sorted")
	case mode == 6: // duplicate one entry next to itself
		i := rng.Intn(len(es))
		es = append(es[:i+1], append([]ep{es[i]}, es[i+1:]...)...)
		st.Inc("eps-duplicated")
	case mode == 7: // swap two adjacent entries
		i := rng.Intn(len(es) - 1)
		es[i], es[i+1] = es[i+1], es[i]
		st.Inc("eps-adjacent-swap")
	case mode == 8: // reverse
		for i, j := 0, len(es)-1; i < j; i, j = i+1, j-1 {
			es[i], es[j] = es[j], es[i]
		}
		st.Inc("eps-reversed")
	default: // shuffle
		for i := len(es) - 1; i > 0; i-- {
			j := rng.Intn(i + 1)
			es[i], es[j] = es[j], es[i]
		}
		st.Inc("eps-shuffled")
	}
	return es
}

func gen(rng *h.Rng, tier string, emit func(string)) {
	st := h.Stats{}
	// (1) all availability records of length 0..4 over a value grid, every time around every boundary
	grid := []uint64{0, 1, 5, 6, 9, 4294967295}
	var recs [][]uint64
	var build func(cur []uint64, n int)
	build = func(cur []uint64, n int) {
		if n == 0 {
			recs = append(recs, append([]uint64{}, cur...))
			return
		}
		for _, g := range grid {
			build(append(cur, g), n-1)
		}
	}
	for n := 0; n <= 4; n++ {
		build(nil, n)
	}
	times := []uint64{0, 1, 2, 4, 5, 6, 7, 8, 9, 10, 4294967294, 4294967295}
	for _, rc := range recs {
		for _, t := range times {
			emit(fmt.Sprintf("vt %d %s", t, slotsTok(rc)))
			st.Inc(fmt.Sprintf("vt-len%d", len(rc)))
		}
	}
	nr := 3000
	if tier == "thorough" {
		nr = 200000
	}
	for i := 0; i < nr; i++ {
		n := rng.Intn(6)
		rc := make([]uint64, n)
		for j := range rc {
			rc[j] = rng.U64() >> uint(32+rng.Intn(32))
		}
		if rng.Bool() {
			sort.Slice(rc, func(a, b int) bool { return rc[a] < rc[b] })
		}
		var t uint64
		if n > 0 && rng.Chance(3, 4) {
			t = rc[rng.Intn(n)] + uint64(rng.Intn(3)) - 1
			t &= 0xFFFFFFFF
		} else {
			t = rng.U64() >> uint(32+rng.Intn(32))
		}
		emit(fmt.Sprintf("vt %d %s", t, slotsTok(rc)))
		st.Inc("vt-random")
	}
	// (2) historical lookups / host calls / admission over random service states
	ncase := 2500
	if tier == "thorough" {
		ncase = 60000
	}
	for i := 0; i < ncase; i++ {
		r := rng.Fork()
		tau := uint64(r.Intn(200))
		if r.Chance(1, 8) {
			tau = 4294967295 - uint64(r.Intn(40))
		}
		blobs := genBlobs(r)
		ss, kvs := genState(r, blobs, tau, st, r.Chance(3, 4))
		// lookups on every service
		for q := 0; q < 3; q++ {
			s := ss[r.Intn(len(ss))]
			var hs []byte
			var t uint64
			if len(s.l) > 0 && r.Chance(5, 6) {
				e := s.l[r.Intn(len(s.l))]
				if len(s.p) > 0 && r.Chance(3, 4) { // prefer a stored preimage, and its record when there is one
					hs0 := s.p[r.Intn(len(s.p))][0]
					e = lrec{hash: hs0}
					for _, c := range s.l {
						if string(c.hash) == string(hs0) {
							e = c
						}
					}
				}
				hs = e.hash
				if len(e.slots) > 0 && r.Chance(4, 5) {
					t = (e.slots[r.Intn(len(e.slots))] + uint64(r.Intn(3)) - 1) & 0xFFFFFFFF
				} else {
					t = tau
				}
			} else {
				hs = blake(r.Bytes(4))
				t = tau
			}
			emit(fmt.Sprintf("hl %d %s %s", t, h.Hex(hs), stateTok([]svc{s})))
			st.Inc("hl")
			// host calls
			op := "hist"
			if r.Chance(1, 3) {
				op = "look"
			}
			self := ss[r.Intn(len(ss))].id
			var w7 uint64
			switch r.Intn(6) {
			case 0:
				w7 = ^uint64(0)
				if r.Chance(3, 4) {
					self = s.id
				}
			case 1:
				w7 = uint64(r.Intn(3)) + 300 // unknown service
			default:
				w7 = s.id
			}
			w10, w11 := uint64(r.Intn(45)), uint64(r.Intn(45))
			if r.Chance(1, 6) {
				w10 = r.U64()
			}
			if r.Chance(1, 6) {
				w11 = r.U64()
			}
			emit(fmt.Sprintf("hc %s %d %d %d %d %d %s %s", op, w7, w10, w11, t, self, h.Hex(hs), stateTok(ss)))
			st.Inc("hc-" + op)
		}
		es := genEps(r, ss, blobs, st)
		emit(fmt.Sprintf("adm %d %s %s %s", tau, stateTok(ss), kvsTok(kvs), epsTok(es)))
		st.Inc("adm")
		if r.Chance(1, 2) {
			es2 := genEps(r, ss, blobs, h.Stats{})
			emit(fmt.Sprintf("prov %d %s %s", tau, stateTok(ss), epsTok(es2)))
			st.Inc("prov")
		}
	}
	h.EmitStats(emit, st)
}

func main() {
	os.Setenv("JAM_FUZZ", "1") // in-memory repositories only
	logger.Disable()
	h.Main(gen, run)
}
