//go:build verif

// C13 harness: see internal/verifcodec (case formats in run.go, generators in streams.go).
package main

import "github.com/New-JAMneration/JAM-Protocol/internal/verifcodec"

func main() { verifcodec.Main(verifcodec.GenC13) }
