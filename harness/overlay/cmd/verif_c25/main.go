//go:build verif

// C25 harness: recent-history transition over block histories through the blockchain singleton:
// prior beta, latest block (header + guarantees), posterior theta (last accumulation outputs);
// recent_history.STFBetaH2BetaHDagger() then recent_history.STFBetaHDagger2BetaHPrime(); posterior beta read back
// and committed as the next prior (what ChainState.StateCommit does for this component).
//
// input:  <H> <C> <nb>  H <n> {hh sroot beefy nrep {hash exports}*}*n  M <np> {peak|-}*np
//         then nb blocks:  B|F <header-encoding-hex> <parent-state-root> <ng> {pkghash exports}*ng <na> {service outhash}*na
// output: after every block "E hh,sroot,beefy,hash:exports:... ; ... M peak,peak,-" blocks separated by "/";
//         then " # alias=<none|prior-mutated:n/blocks>" (was the PRIOR beta object changed by the call; informational).
package main

import (
	"bytes"
	"fmt"
	"os"
	"strings"

	"github.com/New-JAMneration/JAM-Protocol/internal/blockchain"
	"github.com/New-JAMneration/JAM-Protocol/internal/recent_history"
	"github.com/New-JAMneration/JAM-Protocol/internal/types"
	h "github.com/New-JAMneration/JAM-Protocol/internal/verifh"
	"github.com/New-JAMneration/JAM-Protocol/logger"
)

func hash32(r *h.Rng) string { return h.Hex(r.Bytes(32)) }

func to32(s string) (o types.OpaqueHash) {
	b := h.UnHex(s)
	if len(b) != 32 {
		panic("verifh: hash token is not 32 bytes")
	}
	copy(o[:], b)
	return o
}

func gen(rng *h.Rng, tier string, emit func(string)) {
	st := h.Stats{}
	mult := 1
	if tier == "thorough" {
		mult = 15
	}
	one := func(H, C, nb int, kind string) {
		r := rng.Fork()
		var sb strings.Builder
		n0 := r.Intn(H + 1)
		switch r.Intn(6) {
		case 0:
			n0 = 0
		case 1:
			n0 = H
		case 2:
			if H > 1 {
				n0 = H - 1
			}
		}
		if r.Chance(1, 25) {
			n0 = H + 1 + r.Intn(3) // over-long prior history: outside the state invariant
			st.Inc("prior-overlong")
		}
		fmt.Fprintf(&sb, "%d %d %d H %d", H, C, nb, n0)
		pool := []string{} // package hashes seen, to create repeated hashes across blocks
		for i := 0; i < n0; i++ {
			nrep := r.Intn(C + 1)
			fmt.Fprintf(&sb, " %s %s %s %d", hash32(r), hash32(r), hash32(r), nrep)
			for k := 0; k < nrep; k++ {
				fmt.Fprintf(&sb, " %s %s", hash32(r), hash32(r))
			}
		}
		np := r.Intn(7)
		fmt.Fprintf(&sb, " M %d", np)
		for i := 0; i < np; i++ {
			if r.Chance(1, 3) {
				sb.WriteString(" -")
			} else {
				sb.WriteString(" " + hash32(r))
			}
		}
		slot := uint32(r.U64())
		for b := 0; b < nb; b++ {
			var hd types.Header
			copy(hd.Parent[:], r.Bytes(32))
			copy(hd.ParentStateRoot[:], r.Bytes(32))
			copy(hd.ExtrinsicHash[:], r.Bytes(32))
			slot += uint32(1 + r.Intn(3))
			hd.Slot = types.TimeSlot(slot)
			hd.AuthorIndex = types.ValidatorIndex(r.Intn(6))
			copy(hd.EntropySource[:], r.Bytes(96))
			copy(hd.Seal[:], r.Bytes(96))
			no := 0
			if r.Chance(1, 4) {
				no = 1 + r.Intn(3)
			}
			hd.OffendersMark = make(types.OffendersMark, no)
			for i := range hd.OffendersMark {
				copy(hd.OffendersMark[i][:], r.Bytes(32))
			}
			if r.Chance(1, 10) {
				tm := make(types.TicketsMark, types.EpochLength)
				for i := range tm {
					copy(tm[i].ID[:], r.Bytes(32))
					tm[i].Attempt = types.TicketAttempt(r.Intn(3))
				}
				hd.TicketsMark = &tm
				st.Inc("header-with-tickets-mark")
			}
			enc, err := types.NewEncoder().Encode(&hd)
			if err != nil {
				panic("verifh: header encode: " + err.Error())
			}
			ng := r.Intn(C + 2)
			if C > 8 {
				ng = r.Intn(C + 1)
			}
			if r.Chance(1, 5) {
				ng = 0
			}
			// F = a block executed on the current prior state but NOT committed (a fork sibling, or a block rejected by a
			// later STF step): the next block runs from the very same prior-state object
			kindTok := "B"
			if r.Chance(1, 4) {
				kindTok = "F"
				st.Inc("blocks-uncommitted-sibling")
			}
			fmt.Fprintf(&sb, " %s %s %s %d", kindTok, h.Hex(enc), h.Hex(hd.ParentStateRoot[:]), ng)
			pairs := []string{}
			for g := 0; g < ng; g++ {
				var p string
				switch {
				case len(pairs) > 0 && r.Chance(1, 10):
					p = pairs[r.Intn(len(pairs))] // the same (hash, exports) pair twice in a block
					st.Inc("guarantee-duplicate-pair")
				case len(pool) > 0 && r.Chance(1, 8):
					p = pool[r.Intn(len(pool))] + " " + hash32(r) // a package hash already reported in an earlier block
				default:
					ph := r.Bytes(32)
					if r.Chance(1, 3) {
						// close hashes: differ only in a late byte, or only in the first byte
						ph = append([]byte{}, h.UnHex(hash32(r))...)
						if len(pairs) > 0 {
							prev := h.UnHex(strings.Fields(pairs[len(pairs)-1])[0])
							ph = append([]byte{}, prev...)
							ph[[]int{0, 15, 31}[r.Intn(3)]] ^= byte(1 + r.Intn(255))
						}
					}
					p = h.Hex(ph) + " " + hash32(r)
					pool = append(pool, h.Hex(ph))
				}
				// a duplicate hash with a different exports root would make the (unstable) sort order unspecified: avoided
				dup := false
				for _, q := range pairs {
					if strings.Fields(q)[0] == strings.Fields(p)[0] && q != p {
						dup = true
					}
				}
				if dup {
					p = hash32(r) + " " + hash32(r)
				}
				pairs = append(pairs, p)
			}
			for _, p := range pairs {
				sb.WriteString(" " + p)
			}
			na := r.Intn(7)
			if r.Chance(1, 4) {
				na = 0
			}
			if r.Chance(1, 12) {
				na = 8 + r.Intn(40)
			}
			fmt.Fprintf(&sb, " %d", na)
			for a := 0; a < na; a++ {
				svc := uint32(r.U64())
				if r.Chance(1, 2) {
					svc = uint32(r.Intn(300))
				}
				fmt.Fprintf(&sb, " %d %s", svc, hash32(r))
			}
			st.Inc(fmt.Sprintf("accouts-%s", map[bool]string{true: "0", false: "n"}[na == 0]))
			st.Inc("blocks")
		}
		emit(sb.String())
		st.Inc("case-" + kind)
	}
	for i := 0; i < 450*mult; i++ {
		one(8, 2, 9+rng.Intn(22), "H8-tiny")
	}
	for i := 0; i < 150*mult; i++ {
		H := []int{1, 2, 3, 5}[rng.Intn(4)]
		one(H, 1+rng.Intn(4), 3+rng.Intn(12), fmt.Sprintf("H%d", H))
	}
	for i := 0; i < 3*mult; i++ {
		one(8, 341, 10+rng.Intn(4), "H8-full")
	}
	h.EmitStats(emit, st)
}

func fmtBeta(b types.RecentBlocks) string {
	var sb strings.Builder
	sb.WriteString("E")
	for i, e := range b.History {
		if i > 0 {
			sb.WriteString(" ;")
		}
		fmt.Fprintf(&sb, " %s,%s,%s,", h.Hex(e.HeaderHash[:]), h.Hex(e.StateRoot[:]), h.Hex(e.BeefyRoot[:]))
		if len(e.Reported) == 0 {
			sb.WriteString("-")
		}
		for k, p := range e.Reported {
			if k > 0 {
				sb.WriteString(":")
			}
			sb.WriteString(h.Hex(p.Hash[:]) + ":" + h.Hex(p.ExportsRoot[:]))
		}
	}
	sb.WriteString(" M")
	for _, p := range b.Mmr.Peaks {
		if p == nil {
			sb.WriteString(" -")
		} else {
			sb.WriteString(" " + h.Hex((*p)[:]))
		}
	}
	return sb.String()
}

var curH = types.MaxBlocksHistory

func run(input string) string {
	f := strings.Fields(input)
	H, C, nb := h.I(f[0]), h.I(f[1]), h.I(f[2])
	types.SetTinyMode()
	types.CoresCount = C
	// the package's capacity is only touched when the case asks for another one than the package has: with the real H = 8
	// no add-only export is needed (the setter wraps an unexported package variable; if a rewrite renames it the stub panics
	// VERIF-UNAVAILABLE and only the cases with other capacities are skipped, see aux_kinds in check/props/C25.py)
	if H != curH {
		recent_history.VerifSetMaxBlocksHistory(H)
		curH = H
	}
	pos := 3
	if f[pos] != "H" {
		panic("verifh: expected H")
	}
	n0 := h.I(f[pos+1])
	pos += 2
	var beta types.RecentBlocks
	beta.History = make(types.BlocksHistory, 0, n0)
	for i := 0; i < n0; i++ {
		var e types.BlockInfo
		e.HeaderHash = types.HeaderHash(to32(f[pos]))
		e.StateRoot = types.StateRoot(to32(f[pos+1]))
		e.BeefyRoot = to32(f[pos+2])
		nrep := h.I(f[pos+3])
		pos += 4
		e.Reported = make([]types.ReportedWorkPackage, nrep)
		for k := 0; k < nrep; k++ {
			e.Reported[k] = types.ReportedWorkPackage{Hash: types.WorkReportHash(to32(f[pos])), ExportsRoot: types.ExportsRoot(to32(f[pos+1]))}
			pos += 2
		}
		beta.History = append(beta.History, e)
	}
	if f[pos] != "M" {
		panic("verifh: expected M")
	}
	np := h.I(f[pos+1])
	pos += 2
	for i := 0; i < np; i++ {
		if f[pos] == "-" {
			beta.Mmr.Peaks = append(beta.Mmr.Peaks, nil)
		} else {
			p := to32(f[pos])
			beta.Mmr.Peaks = append(beta.Mmr.Peaks, types.MmrPeak(&p))
		}
		pos++
	}
	blockchain.ResetInstance()
	cs := blockchain.GetInstance()
	cs.GetPriorStates().SetBeta(beta)
	outs := make([]string, 0, nb)
	mutated, blocks := 0, 0
	for b := 0; b < nb; b++ {
		if f[pos] != "B" && f[pos] != "F" {
			panic("verifh: expected B or F")
		}
		commit := f[pos] == "B"
		enc := h.UnHex(f[pos+1])
		var hd types.Header
		if err := types.NewDecoder().Decode(enc, &hd); err != nil {
			panic("verifh: header decode: " + err.Error())
		}
		re, err := types.NewEncoder().Encode(&hd)
		if err != nil || !bytes.Equal(re, enc) {
			panic("verifh: header does not round-trip")
		}
		if hd.ParentStateRoot != types.StateRoot(to32(f[pos+2])) {
			panic("verifh: parent state root token differs from the header")
		}
		ng := h.I(f[pos+3])
		pos += 4
		gs := make(types.GuaranteesExtrinsic, ng)
		for g := 0; g < ng; g++ {
			gs[g].Report.PackageSpec.Hash = types.WorkPackageHash(to32(f[pos]))
			gs[g].Report.PackageSpec.ExportsRoot = types.ExportsRoot(to32(f[pos+1]))
			pos += 2
		}
		na := h.I(f[pos])
		pos++
		theta := make(types.LastAccOut, na)
		for a := 0; a < na; a++ {
			theta[a] = types.AccumulatedServiceHash{ServiceID: types.ServiceID(h.U(f[pos])), Hash: to32(f[pos+1])}
			pos += 2
		}
		blocks++
		prior := cs.GetPriorStates().GetBeta()
		snap := fmtBeta(prior)
		cs.AddBlock(types.Block{Header: hd, Extrinsic: types.Extrinsic{Guarantees: gs}})
		cs.GetPosteriorStates().SetLastAccOut(theta)
		recent_history.STFBetaH2BetaHDagger()
		if err := recent_history.STFBetaHDagger2BetaHPrime(); err != nil {
			outs = append(outs, "err")
			break
		}
		post := cs.GetPosteriorStates().GetBeta()
		outs = append(outs, fmtBeta(post))
		if fmtBeta(cs.GetPriorStates().GetBeta()) != snap {
			mutated++
		}
		// what ChainState.StateCommit does for this component; an uncommitted block leaves the prior state OBJECT in place
		// (no snapshot is restored: whatever the call did to it is what the next block starts from, as in the node)
		if commit {
			cs.GetPriorStates().SetBeta(post)
		}
		cs.GetPosteriorStates().SetBeta(types.RecentBlocks{})
		cs.GetPosteriorStates().SetLastAccOut(nil)
	}
	alias := "none"
	if mutated > 0 {
		alias = fmt.Sprintf("prior-mutated:%d/%d", mutated, blocks)
	}
	return strings.Join(outs, " / ") + " # alias=" + alias
}

func main() {
	os.Setenv("JAM_FUZZ", "1") // in-memory repositories only
	logger.Disable()
	h.Main(gen, run)
}
