//go:build verif

// C35 harness: dispute extrinsics with real Ed25519 signatures over block histories, through the blockchain singleton
// (prior tau / kappa / lambda / psi / rho, latest block with the disputes extrinsic) and extrinsic.Disputes()
// (= stf.UpdateDisputes): verdict / culprit / fault controllers, ClearWorkReports, UpdatePsiGBW, UpdatePsiO.
//
// input (one case = one history):
//
//	<V> <C> <E> <seed> <nkeys> <ntargets> <nreports> <nsets> <nb>
//	KT <nkeys public keys>          key i = ed25519.NewKeyFromSeed(sha256("key/<seed>/<i>")), checked by run
//	TT <ntargets 32-byte hashes>    target t < nreports is blake2b(encode(report t)), report t built from (seed, t), checked by run
//	KS <nsets * V key indices>      validator sets
//	S G <idx,..|-> B <..> W <..> O <key idx,..|-> R <C entries: report id or ->     prior psi and rho
//	then nb blocks:
//	B <tau> <kappa set> <lambda set> <nv> {target age nvotes {vote,index,sig}*}*nv <nc> {target,key,sig}*nc <nf> {target,vote,key,sig}*nf <nfill> {core:report}*
//	sig = x (64 garbage bytes)  |  k<key>/<v|i|g>/<target>  (signed by key over jam_valid / jam_invalid / jam_guarantee ++ TT[target])
//
// output per block ("/"-separated): err | ok G=.. B=.. W=.. O=.. R=.. M=..  (indices into TT / KT; list order as stored)
// a rejected block leaves the harness state as it was (the harness restores its own deep snapshot);
// then " # alias=<none|prior-mutated:...>" : was the PRIOR psi / rho object changed by the call (informational).
package main

import (
	"bytes"
	"crypto/ed25519"
	"crypto/sha256"
	"fmt"
	"os"
	"sort"
	"strconv"
	"strings"

	"github.com/New-JAMneration/JAM-Protocol/internal/blockchain"
	"github.com/New-JAMneration/JAM-Protocol/internal/extrinsic"
	"github.com/New-JAMneration/JAM-Protocol/internal/types"
	"github.com/New-JAMneration/JAM-Protocol/internal/utilities/hash"
	h "github.com/New-JAMneration/JAM-Protocol/internal/verifh"
	"github.com/New-JAMneration/JAM-Protocol/logger"
)

type sigD struct {
	garbage bool
	key     int
	kind    byte // 'v' jam_valid, 'i' jam_invalid, 'g' jam_guarantee
	target  int
}
type voteD struct {
	vote  bool
	index int
	sig   sigD
}
type verdictD struct {
	target int
	age    uint32
	votes  []voteD
}
type culpritD struct {
	target, key int
	sig         sigD
}
type faultD struct {
	target int
	vote   bool
	key    int
	sig    sigD
}
type blockD struct {
	tau        uint32
	kset, lset int
	vs         []verdictD
	cs         []culpritD
	fs         []faultD
	fill       [][2]int
}

type world struct {
	V, C, E  int
	seed     uint64
	priv     []ed25519.PrivateKey
	pub      []types.Ed25519Public
	targets  []types.WorkReportHash
	nreports int
	sets     [][]int
	keyIdx   map[types.Ed25519Public]int
	tgtIdx   map[types.WorkReportHash]int
	garbageN int
}

func newWorld(V, C, E int, seed uint64, nkeys, ntargets, nreports int) *world {
	w := &world{V: V, C: C, E: E, seed: seed, nreports: nreports}
	w.keyIdx = map[types.Ed25519Public]int{}
	w.tgtIdx = map[types.WorkReportHash]int{}
	for i := 0; i < nkeys; i++ {
		s := sha256.Sum256([]byte(fmt.Sprintf("key/%d/%d", seed, i)))
		p := ed25519.NewKeyFromSeed(s[:])
		w.priv = append(w.priv, p)
		var pk types.Ed25519Public
		copy(pk[:], p.Public().(ed25519.PublicKey))
		w.pub = append(w.pub, pk)
		w.keyIdx[pk] = i
	}
	for t := 0; t < ntargets; t++ {
		var th types.WorkReportHash
		if t < nreports {
			th = w.reportHash(t)
		} else {
			s := sha256.Sum256([]byte(fmt.Sprintf("tgt/%d/%d", seed, t)))
			copy(th[:], s[:])
		}
		w.targets = append(w.targets, th)
		w.tgtIdx[th] = t
	}
	return w
}

func (w *world) report(t int) types.WorkReport {
	var r types.WorkReport
	s := sha256.Sum256([]byte(fmt.Sprintf("rep/%d/%d", w.seed, t)))
	copy(r.PackageSpec.Hash[:], s[:])
	r.PackageSpec.Length = types.U32(t)
	r.CoreIndex = types.CoreIndex(t % w.C)
	r.AuthOutput = types.ByteSequence(s[:t%7])
	return r
}

func (w *world) reportHash(t int) types.WorkReportHash {
	r := w.report(t)
	enc, err := types.NewEncoder().Encode(&r)
	if err != nil {
		panic("verifh: report encode: " + err.Error())
	}
	return types.WorkReportHash(hash.Blake2bHash(enc))
}

func (w *world) sign(s sigD) (out types.Ed25519Signature) {
	if s.garbage {
		w.garbageN++
		a := sha256.Sum256([]byte(fmt.Sprintf("garbage/%d/%d/a", w.seed, w.garbageN)))
		b := sha256.Sum256([]byte(fmt.Sprintf("garbage/%d/%d/b", w.seed, w.garbageN)))
		copy(out[:32], a[:])
		copy(out[32:], b[:])
		out[63] &= 0x0f // keep S below the group order so that only the equation decides
		return out
	}
	var msg []byte
	switch s.kind {
	case 'v':
		msg = []byte(types.JamValid)
	case 'i':
		msg = []byte(types.JamInvalid)
	default:
		msg = []byte(types.JamGuarantee)
	}
	msg = append(msg, w.targets[s.target][:]...)
	copy(out[:], ed25519.Sign(w.priv[s.key], msg))
	return out
}

func (w *world) build(b *blockD) types.DisputesExtrinsic {
	var ext types.DisputesExtrinsic
	for _, v := range b.vs {
		tv := types.Verdict{Target: w.targets[v.target], Age: types.U32(v.age)}
		for _, j := range v.votes {
			tv.Votes = append(tv.Votes, types.Judgement{Vote: j.vote, Index: types.ValidatorIndex(j.index), Signature: w.sign(j.sig)})
		}
		ext.Verdicts = append(ext.Verdicts, tv)
	}
	for _, c := range b.cs {
		ext.Culprits = append(ext.Culprits, types.Culprit{Target: w.targets[c.target], Key: w.pub[c.key], Signature: w.sign(c.sig)})
	}
	for _, f := range b.fs {
		ext.Faults = append(ext.Faults, types.Fault{Target: w.targets[f.target], Vote: f.vote, Key: w.pub[f.key], Signature: w.sign(f.sig)})
	}
	return ext
}

func (w *world) validators(set int) types.ValidatorsData {
	vd := make(types.ValidatorsData, len(w.sets[set]))
	for i, k := range w.sets[set] {
		vd[i].Ed25519 = w.pub[k]
	}
	return vd
}

// ---------- rendering / parsing ----------
func b01(b bool) string {
	if b {
		return "1"
	}
	return "0"
}
func (s sigD) String() string {
	if s.garbage {
		return "x"
	}
	return fmt.Sprintf("k%d/%c/%d", s.key, s.kind, s.target)
}
func parseSig(t string) sigD {
	if t == "x" {
		return sigD{garbage: true}
	}
	p := strings.Split(t[1:], "/")
	return sigD{key: h.I(p[0]), kind: p[1][0], target: h.I(p[2])}
}
func (b *blockD) render() string {
	var sb strings.Builder
	fmt.Fprintf(&sb, "B %d %d %d %d", b.tau, b.kset, b.lset, len(b.vs))
	for _, v := range b.vs {
		fmt.Fprintf(&sb, " %d %d %d", v.target, v.age, len(v.votes))
		for _, j := range v.votes {
			fmt.Fprintf(&sb, " %s,%d,%s", b01(j.vote), j.index, j.sig)
		}
	}
	fmt.Fprintf(&sb, " %d", len(b.cs))
	for _, c := range b.cs {
		fmt.Fprintf(&sb, " %d,%d,%s", c.target, c.key, c.sig)
	}
	fmt.Fprintf(&sb, " %d", len(b.fs))
	for _, f := range b.fs {
		fmt.Fprintf(&sb, " %d,%s,%d,%s", f.target, b01(f.vote), f.key, f.sig)
	}
	fmt.Fprintf(&sb, " %d", len(b.fill))
	for _, cf := range b.fill {
		fmt.Fprintf(&sb, " %d:%d", cf[0], cf[1])
	}
	return sb.String()
}
func parseBlock(f []string, pos *int) *blockD {
	next := func() string { t := f[*pos]; *pos++; return t }
	if next() != "B" {
		panic("verifh: expected B")
	}
	b := &blockD{}
	b.tau = uint32(h.U(next()))
	b.kset = h.I(next())
	b.lset = h.I(next())
	nv := h.I(next())
	for i := 0; i < nv; i++ {
		v := verdictD{target: h.I(next()), age: uint32(h.U(next()))}
		n := h.I(next())
		for k := 0; k < n; k++ {
			p := strings.SplitN(next(), ",", 3)
			v.votes = append(v.votes, voteD{vote: p[0] == "1", index: h.I(p[1]), sig: parseSig(p[2])})
		}
		b.vs = append(b.vs, v)
	}
	nc := h.I(next())
	for i := 0; i < nc; i++ {
		p := strings.SplitN(next(), ",", 3)
		b.cs = append(b.cs, culpritD{target: h.I(p[0]), key: h.I(p[1]), sig: parseSig(p[2])})
	}
	nf := h.I(next())
	for i := 0; i < nf; i++ {
		p := strings.SplitN(next(), ",", 4)
		b.fs = append(b.fs, faultD{target: h.I(p[0]), vote: p[1] == "1", key: h.I(p[2]), sig: parseSig(p[3])})
	}
	nfill := h.I(next())
	for i := 0; i < nfill; i++ {
		p := strings.SplitN(next(), ":", 2)
		b.fill = append(b.fill, [2]int{h.I(p[0]), h.I(p[1])})
	}
	return b
}

func idxList(xs []int) string {
	if len(xs) == 0 {
		return "-"
	}
	s := make([]string, len(xs))
	for i, x := range xs {
		s[i] = strconv.Itoa(x)
	}
	return strings.Join(s, ",")
}
func parseIdx(t string) []int {
	if t == "-" {
		return nil
	}
	out := []int{}
	for _, s := range strings.Split(t, ",") {
		out = append(out, h.I(s))
	}
	return out
}

func (w *world) fmtTargets(l []types.WorkReportHash) string {
	if len(l) == 0 {
		return "-"
	}
	s := make([]string, len(l))
	for i, x := range l {
		if k, ok := w.tgtIdx[x]; ok {
			s[i] = strconv.Itoa(k)
		} else {
			s[i] = "x" + h.Hex(x[:])
		}
	}
	return strings.Join(s, ",")
}
func (w *world) fmtKeys(l []types.Ed25519Public) string {
	if len(l) == 0 {
		return "-"
	}
	s := make([]string, len(l))
	for i, x := range l {
		if k, ok := w.keyIdx[x]; ok {
			s[i] = strconv.Itoa(k)
		} else {
			s[i] = "x" + h.Hex(x[:])
		}
	}
	return strings.Join(s, ",")
}
func (w *world) fmtRho(r types.AvailabilityAssignments) string {
	s := make([]string, len(r))
	for i, a := range r {
		if a == nil {
			s[i] = "-"
			continue
		}
		enc, err := types.NewEncoder().Encode(&a.Report)
		if err != nil {
			s[i] = "ENCERR"
			continue
		}
		th := types.WorkReportHash(hash.Blake2bHash(enc))
		if k, ok := w.tgtIdx[th]; ok {
			s[i] = strconv.Itoa(k)
		} else {
			s[i] = "x" + h.Hex(th[:])
		}
	}
	return strings.Join(s, ",")
}
func (w *world) fmtState(psi types.DisputesRecords, rho types.AvailabilityAssignments) string {
	return fmt.Sprintf("G=%s B=%s W=%s O=%s R=%s", w.fmtTargets(psi.Good), w.fmtTargets(psi.Bad), w.fmtTargets(psi.Wonky), w.fmtKeys(psi.Offenders), w.fmtRho(rho))
}

func clonePsi(p types.DisputesRecords) types.DisputesRecords {
	return types.DisputesRecords{
		Good:      append([]types.WorkReportHash{}, p.Good...),
		Bad:       append([]types.WorkReportHash{}, p.Bad...),
		Wonky:     append([]types.WorkReportHash{}, p.Wonky...),
		Offenders: append([]types.Ed25519Public{}, p.Offenders...),
	}
}
func cloneRho(r types.AvailabilityAssignments) types.AvailabilityAssignments {
	out := make(types.AvailabilityAssignments, len(r))
	for i, a := range r {
		if a != nil {
			c := *a
			out[i] = &c
		}
	}
	return out
}

// session drives the singleton over one history
type session struct {
	w        *world
	cs       *blockchain.ChainState
	mutOK    int
	mutRej   int
	accepted int
	rejected int
}

func newSession(w *world, g, b, wk []int, o []int, rho []int) *session {
	types.SetTinyMode()
	types.ValidatorsCount = w.V
	types.CoresCount = w.C
	types.EpochLength = w.E
	types.ValidatorsSuperMajority = w.V*2/3 + 1
	blockchain.ResetInstance()
	s := &session{w: w, cs: blockchain.GetInstance()}
	var psi types.DisputesRecords
	for _, t := range g {
		psi.Good = append(psi.Good, w.targets[t])
	}
	for _, t := range b {
		psi.Bad = append(psi.Bad, w.targets[t])
	}
	for _, t := range wk {
		psi.Wonky = append(psi.Wonky, w.targets[t])
	}
	for _, k := range o {
		psi.Offenders = append(psi.Offenders, w.pub[k])
	}
	s.cs.GetPriorStates().SetPsi(psi)
	r := make(types.AvailabilityAssignments, w.C)
	for c, t := range rho {
		if t >= 0 {
			r[c] = &types.AvailabilityAssignment{Report: w.report(t), AssignedSlot: 1}
		}
	}
	s.cs.GetPriorStates().SetRho(r)
	return s
}

func (s *session) apply(b *blockD) (bool, string) {
	w := s.w
	pr := s.cs.GetPriorStates()
	pr.SetTau(types.TimeSlot(b.tau))
	pr.SetKappa(w.validators(b.kset))
	pr.SetLambda(w.validators(b.lset))
	ext := w.build(b)
	s.cs.AddBlock(types.Block{Header: types.Header{Slot: types.TimeSlot(b.tau + 1)}, Extrinsic: types.Extrinsic{Disputes: ext}})
	snapPsi, snapRho := clonePsi(pr.GetPsi()), cloneRho(pr.GetRho())
	before := w.fmtState(pr.GetPsi(), pr.GetRho())
	mark, err := extrinsic.Disputes()
	after := w.fmtState(pr.GetPsi(), pr.GetRho())
	post := s.cs.GetPosteriorStates()
	if err != nil {
		s.rejected++
		if after != before {
			s.mutRej++
		}
		// the block is rejected: the node keeps its prior state; undo whatever the call did to it
		pr.SetPsi(snapPsi)
		pr.SetRho(snapRho)
		post.SetState(blockchain.NewPosteriorStates().GetState())
		return false, "err"
	}
	s.accepted++
	if after != before {
		s.mutOK++
	}
	psi := post.GetPsi()
	rhoD := s.cs.GetIntermediateStates().GetRhoDagger()
	out := "ok " + w.fmtState(psi, rhoD) + " M=" + w.fmtKeys([]types.Ed25519Public(mark))
	// commit: posterior psi becomes prior; rho-dagger plus the block's new reports becomes the next prior rho
	for _, cf := range b.fill {
		if cf[0] < len(rhoD) && rhoD[cf[0]] == nil {
			rhoD[cf[0]] = &types.AvailabilityAssignment{Report: w.report(cf[1]), AssignedSlot: types.TimeSlot(b.tau + 1)}
		}
	}
	pr.SetPsi(psi)
	pr.SetRho(rhoD)
	post.SetState(blockchain.NewPosteriorStates().GetState())
	return true, out
}

func (s *session) alias() string {
	if s.mutOK == 0 && s.mutRej == 0 {
		return "none"
	}
	return fmt.Sprintf("prior-mutated:accepted=%d/%d,rejected=%d/%d", s.mutOK, s.accepted, s.mutRej, s.rejected)
}

// ---------- generation ----------
func (w *world) sortVerdicts(vs []verdictD) {
	sort.SliceStable(vs, func(i, j int) bool { return bytes.Compare(w.targets[vs[i].target][:], w.targets[vs[j].target][:]) < 0 })
}
func (w *world) sortCulprits(cs []culpritD) {
	sort.SliceStable(cs, func(i, j int) bool { return bytes.Compare(w.pub[cs[i].key][:], w.pub[cs[j].key][:]) < 0 })
}
func (w *world) sortFaults(fs []faultD) {
	sort.SliceStable(fs, func(i, j int) bool { return bytes.Compare(w.pub[fs[i].key][:], w.pub[fs[j].key][:]) < 0 })
}

func kindOf(vote bool) byte {
	if vote {
		return 'v'
	}
	return 'i'
}

func (w *world) mkVotes(r *h.Rng, target int, set []int, positives, n int) []voteD {
	perm := make([]int, len(set))
	for i := range perm {
		perm[i] = i
	}
	for i := len(perm) - 1; i > 0; i-- {
		j := r.Intn(i + 1)
		perm[i], perm[j] = perm[j], perm[i]
	}
	if n > len(perm) {
		n = len(perm)
	}
	idx := append([]int{}, perm[:n]...)
	sort.Ints(idx)
	pos := map[int]bool{}
	for _, i := range permOf(r, n)[:min(positives, n)] {
		pos[i] = true
	}
	votes := make([]voteD, n)
	for i, ix := range idx {
		v := pos[i]
		votes[i] = voteD{vote: v, index: ix, sig: sigD{key: set[ix], kind: kindOf(v), target: target}}
	}
	return votes
}

func (s *session) genBlock(r *h.Rng, tau uint32, kset, lset int, st h.Stats) *blockD {
	w := s.w
	b := &blockD{tau: tau, kset: kset, lset: lset}
	a := tau / uint32(w.E)
	pr := s.cs.GetPriorStates()
	psi := pr.GetPsi()
	judged := map[int]bool{}
	for _, l := range [][]types.WorkReportHash{psi.Good, psi.Bad, psi.Wonky} {
		for _, x := range l {
			judged[w.tgtIdx[x]] = true
		}
	}
	offender := map[int]bool{}
	for _, k := range psi.Offenders {
		offender[w.keyIdx[k]] = true
	}
	inRho := []int{}
	inRhoSet := map[int]bool{}
	for _, asg := range pr.GetRho() {
		if asg != nil {
			enc, _ := types.NewEncoder().Encode(&asg.Report)
			if t, ok := w.tgtIdx[types.WorkReportHash(hash.Blake2bHash(enc))]; ok {
				inRho = append(inRho, t)
				inRhoSet[t] = true
			}
		}
	}
	good, wonky := w.V*2/3+1, w.V/3
	nvotes := good
	used := map[int]bool{}
	fresh := func() int {
		for tries := 0; tries < 40; tries++ {
			t := r.Intn(len(w.targets))
			if len(inRho) > 0 && r.Chance(3, 5) {
				t = inRho[r.Intn(len(inRho))]
			}
			if !judged[t] && !used[t] {
				used[t] = true
				return t
			}
		}
		return -1
	}
	valKeys := []int{}
	seen := map[int]bool{}
	for _, k := range append(append([]int{}, w.sets[kset]...), w.sets[lset]...) {
		if !seen[k] {
			seen[k] = true
			valKeys = append(valKeys, k)
		}
	}
	usedC, usedF := map[int]bool{}, map[int]bool{}
	pickKey := func(usedM map[int]bool) int {
		for tries := 0; tries < 60; tries++ {
			k := valKeys[r.Intn(len(valKeys))]
			if !offender[k] && !usedM[k] {
				usedM[k] = true
				return k
			}
		}
		return -1
	}
	nverd := []int{0, 1, 1, 1, 2, 2, 3}[r.Intn(7)]
	if w.V > 100 {
		nverd = 1 + r.Intn(2)
	}
	for i := 0; i < nverd; i++ {
		t := fresh()
		if t < 0 {
			break
		}
		age, set := a, w.sets[kset]
		if a >= 1 && r.Chance(3, 10) {
			age, set = a-1, w.sets[lset]
			st.Inc("verdict-age-previous-epoch")
		}
		cls := r.Intn(3)
		switch cls {
		case 0:
			b.vs = append(b.vs, verdictD{target: t, age: age, votes: w.mkVotes(r, t, set, good, nvotes)})
			nf := 1 + r.Intn(2)
			for k := 0; k < nf; k++ {
				if key := pickKey(usedF); key >= 0 {
					b.fs = append(b.fs, faultD{target: t, vote: false, key: key, sig: sigD{key: key, kind: 'i', target: t}})
				}
			}
			st.Inc("verdict-good")
		case 1:
			b.vs = append(b.vs, verdictD{target: t, age: age, votes: w.mkVotes(r, t, set, 0, nvotes)})
			nc := 2 + r.Intn(2)
			for k := 0; k < nc; k++ {
				if key := pickKey(usedC); key >= 0 {
					b.cs = append(b.cs, culpritD{target: t, key: key, sig: sigD{key: key, kind: 'g', target: t}})
				}
			}
			if r.Chance(3, 10) {
				// a validator who judged the bad report valid; sometimes the same key as a culprit
				key := -1
				if r.Chance(1, 3) && len(b.cs) > 0 && !usedF[b.cs[len(b.cs)-1].key] {
					key = b.cs[len(b.cs)-1].key
					usedF[key] = true
					st.Inc("key-both-culprit-and-fault")
				} else {
					key = pickKey(usedF)
				}
				if key >= 0 {
					b.fs = append(b.fs, faultD{target: t, vote: true, key: key, sig: sigD{key: key, kind: 'v', target: t}})
				}
			}
			st.Inc("verdict-bad")
		default:
			b.vs = append(b.vs, verdictD{target: t, age: age, votes: w.mkVotes(r, t, set, wonky, nvotes)})
			st.Inc("verdict-wonky")
		}
	}
	// new reports on some cores after the block
	for c := 0; c < w.C && w.C <= 16; c++ {
		if r.Chance(1, 2) {
			t := r.Intn(w.nreports)
			if !judged[t] && !used[t] && !inRhoSet[t] {
				b.fill = append(b.fill, [2]int{c, t})
				inRhoSet[t] = true
			}
		}
	}
	if w.C > 16 {
		for k := 0; k < 6; k++ {
			t := r.Intn(w.nreports)
			if !judged[t] && !used[t] && !inRhoSet[t] {
				b.fill = append(b.fill, [2]int{r.Intn(w.C), t})
				inRhoSet[t] = true
			}
		}
	}
	w.sortVerdicts(b.vs)
	w.sortCulprits(b.cs)
	w.sortFaults(b.fs)
	if !r.Chance(45, 100) {
		st.Inc("block-intended-valid")
		return b
	}
	// one deviation
	judgedList := []int{}
	for t := range judged {
		judgedList = append(judgedList, t)
	}
	sort.Ints(judgedList)
	badCount := func() int { // a positive count that is none of good / 0 / wonky
		for tries := 0; tries < 50; tries++ {
			n := r.Intn(nvotes + 1)
			if n != good && n != 0 && n != wonky {
				return n
			}
		}
		return -1
	}
	name := "none"
	switch m := r.Intn(24); m {
	case 0, 1, 2: // other vote split
		if len(b.vs) > 0 {
			if n := badCount(); n >= 0 {
				v := &b.vs[r.Intn(len(b.vs))]
				set := w.sets[kset]
				if v.age != a {
					set = w.sets[lset]
				}
				v.votes = w.mkVotes(r, v.target, set, n, nvotes)
				name = "vote-split-other"
			}
		} else if n := badCount(); n >= 0 {
			if t := fresh(); t >= 0 {
				b.vs = append(b.vs, verdictD{target: t, age: a, votes: w.mkVotes(r, t, w.sets[kset], n, nvotes)})
				name = "vote-split-other"
			}
		}
	case 3: // supermajority minus one / plus boundary
		if len(b.vs) > 0 && good-1 != wonky && good-1 != 0 {
			v := &b.vs[r.Intn(len(b.vs))]
			set := w.sets[kset]
			if v.age != a {
				set = w.sets[lset]
			}
			v.votes = w.mkVotes(r, v.target, set, good-1, nvotes)
			name = "vote-split-good-minus-one"
		}
	case 4: // bad signature on a vote
		if len(b.vs) > 0 {
			v := &b.vs[r.Intn(len(b.vs))]
			j := &v.votes[r.Intn(len(v.votes))]
			switch r.Intn(4) {
			case 0:
				j.sig = sigD{garbage: true}
			case 1:
				j.sig.key = (j.sig.key + 1) % len(w.pub)
			case 2:
				j.sig.kind = kindOf(!j.vote)
			default:
				j.sig.target = (j.sig.target + 1) % len(w.targets)
			}
			name = "vote-bad-signature"
		}
	case 5: // vote signed with the key of the other epoch's set
		if len(b.vs) > 0 {
			v := &b.vs[r.Intn(len(b.vs))]
			other := w.sets[lset]
			if v.age != a {
				other = w.sets[kset]
			}
			for k := range v.votes {
				v.votes[k].sig.key = other[v.votes[k].index]
			}
			name = "votes-signed-by-other-set"
		}
	case 6: // bad age
		if len(b.vs) > 0 {
			v := &b.vs[r.Intn(len(b.vs))]
			v.age = a + 1 + uint32(r.Intn(2))
			if a >= 2 && r.Bool() {
				v.age = a - 2
			}
			name = "verdict-bad-age"
		}
	case 7: // verdicts out of order / duplicated
		if len(b.vs) >= 2 {
			b.vs[0], b.vs[1] = b.vs[1], b.vs[0]
			name = "verdicts-unsorted"
		} else if len(b.vs) == 1 {
			b.vs = append(b.vs, b.vs[0])
			name = "verdicts-duplicate"
		}
	case 8: // votes out of order / duplicate index / index out of range
		if len(b.vs) > 0 {
			v := &b.vs[r.Intn(len(b.vs))]
			switch r.Intn(3) {
			case 0:
				if len(v.votes) >= 2 {
					v.votes[0], v.votes[1] = v.votes[1], v.votes[0]
					name = "votes-unsorted"
				}
			case 1:
				if len(v.votes) >= 2 {
					v.votes[1].index = v.votes[0].index
					name = "votes-duplicate-index"
				}
			default:
				v.votes[len(v.votes)-1].index = w.V + r.Intn(3)
				name = "vote-index-out-of-range"
			}
		}
	case 9, 10: // a report judged in an earlier block again (same or conflicting class)
		if len(judgedList) > 0 {
			t := judgedList[r.Intn(len(judgedList))]
			pos := []int{good, 0, wonky}[r.Intn(3)]
			b.vs = append(b.vs, verdictD{target: t, age: a, votes: w.mkVotes(r, t, w.sets[kset], pos, nvotes)})
			if pos == 0 {
				for k := 0; k < 2; k++ {
					if key := pickKey(usedC); key >= 0 {
						b.cs = append(b.cs, culpritD{target: t, key: key, sig: sigD{key: key, kind: 'g', target: t}})
					}
				}
			}
			if pos == good {
				if key := pickKey(usedF); key >= 0 {
					b.fs = append(b.fs, faultD{target: t, vote: false, key: key, sig: sigD{key: key, kind: 'i', target: t}})
				}
			}
			w.sortVerdicts(b.vs)
			w.sortCulprits(b.cs)
			w.sortFaults(b.fs)
			name = "verdict-already-judged"
		}
	case 11: // too few culprits for a bad verdict
		if len(b.cs) > 0 {
			b.cs = append([]culpritD{}, b.cs[1:]...)
			if len(b.cs) > 0 && r.Bool() {
				b.cs = b.cs[:len(b.cs)-1]
			}
			name = "culprits-removed"
		}
	case 12: // no fault for a good verdict
		for i, f := range b.fs {
			if !f.vote {
				b.fs = append(b.fs[:i:i], b.fs[i+1:]...)
				name = "fault-removed"
				break
			}
		}
	case 13: // culprit whose report is not bad (good / wonky in this block, judged earlier, or never judged)
		if key := pickKey(usedC); key >= 0 {
			t := r.Intn(len(w.targets))
			if len(b.vs) > 0 && r.Bool() {
				t = b.vs[r.Intn(len(b.vs))].target
			}
			b.cs = append(b.cs, culpritD{target: t, key: key, sig: sigD{key: key, kind: 'g', target: t}})
			w.sortCulprits(b.cs)
			name = "culprit-extra-any-target"
		}
	case 14: // culprit / fault key that is not a validator of kappa or lambda, or already an offender
		cand := -1
		if len(psi.Offenders) > 0 && r.Bool() {
			cand = w.keyIdx[psi.Offenders[r.Intn(len(psi.Offenders))]]
			name = "key-already-offender"
		} else {
			for k := range w.pub {
				if !seen[k] {
					cand = k
					name = "key-not-a-validator"
					break
				}
			}
		}
		if cand >= 0 {
			if len(b.cs) > 0 && r.Bool() {
				c := &b.cs[r.Intn(len(b.cs))]
				c.key, c.sig.key = cand, cand
				w.sortCulprits(b.cs)
			} else if len(b.fs) > 0 {
				f := &b.fs[r.Intn(len(b.fs))]
				f.key, f.sig.key = cand, cand
				w.sortFaults(b.fs)
			} else {
				name = "none"
			}
		} else {
			name = "none"
		}
	case 15: // culprit / fault signature wrong
		if len(b.cs) > 0 && r.Bool() {
			c := &b.cs[r.Intn(len(b.cs))]
			switch r.Intn(3) {
			case 0:
				c.sig = sigD{garbage: true}
			case 1:
				c.sig.kind = 'i'
			default:
				c.sig.target = (c.sig.target + 1) % len(w.targets)
			}
			name = "culprit-bad-signature"
		} else if len(b.fs) > 0 {
			f := &b.fs[r.Intn(len(b.fs))]
			switch r.Intn(3) {
			case 0:
				f.sig = sigD{garbage: true}
			case 1:
				f.sig.kind = kindOf(!f.vote)
			default:
				f.sig.key = (f.sig.key + 1) % len(w.pub)
			}
			name = "fault-bad-signature"
		}
	case 16: // fault voting with the verdict (not a fault)
		if len(b.fs) > 0 {
			f := &b.fs[r.Intn(len(b.fs))]
			f.vote = !f.vote
			f.sig.kind = kindOf(f.vote)
			name = "fault-agrees-with-verdict"
		}
	case 17: // culprits / faults out of order or duplicated
		switch {
		case len(b.cs) >= 2 && r.Bool():
			b.cs[0], b.cs[1] = b.cs[1], b.cs[0]
			name = "culprits-unsorted"
		case len(b.fs) >= 2:
			b.fs[0], b.fs[1] = b.fs[1], b.fs[0]
			name = "faults-unsorted"
		case len(b.cs) >= 1:
			b.cs = append(b.cs, b.cs[len(b.cs)-1])
			name = "culprits-duplicate"
		case len(b.fs) >= 1:
			b.fs = append(b.fs, b.fs[len(b.fs)-1])
			name = "faults-duplicate"
		}
	case 18: // fault about a report that is in neither posterior set (wonky now, or never judged)
		if key := pickKey(usedF); key >= 0 {
			t := r.Intn(len(w.targets))
			for _, v := range b.vs {
				pos := 0
				for _, j := range v.votes {
					if j.vote {
						pos++
					}
				}
				if pos == wonky {
					t = v.target
				}
			}
			vote := r.Bool()
			b.fs = append(b.fs, faultD{target: t, vote: vote, key: key, sig: sigD{key: key, kind: kindOf(vote), target: t}})
			w.sortFaults(b.fs)
			name = "fault-extra-any-target"
		}
	case 19: // fewer or more votes than the supermajority size (the count of positives decides, not the count of votes)
		if len(b.vs) > 0 {
			v := &b.vs[r.Intn(len(b.vs))]
			if r.Bool() && len(v.votes) > 1 {
				v.votes = v.votes[:len(v.votes)-1]
				name = "verdict-fewer-votes"
			} else if len(v.votes) < w.V {
				set := w.sets[kset]
				if v.age != a {
					set = w.sets[lset]
				}
				pos := 0
				for _, j := range v.votes {
					if j.vote {
						pos++
					}
				}
				v.votes = w.mkVotes(r, v.target, set, pos, len(v.votes)+1)
				name = "verdict-more-votes"
			}
		}
	case 20: // verdict with no votes at all
		if t := fresh(); t >= 0 {
			b.vs = append(b.vs, verdictD{target: t, age: a})
			w.sortVerdicts(b.vs)
			name = "verdict-no-votes"
		}
	case 21: // culprits for a report judged bad in an earlier block (valid: new offenders without a new verdict)
		if len(psi.Bad) > 0 {
			t := w.tgtIdx[psi.Bad[r.Intn(len(psi.Bad))]]
			if key := pickKey(usedC); key >= 0 {
				b.cs = append(b.cs, culpritD{target: t, key: key, sig: sigD{key: key, kind: 'g', target: t}})
				w.sortCulprits(b.cs)
				name = "culprit-for-earlier-bad"
			}
		}
	case 22: // faults about reports judged earlier
		if len(psi.Good)+len(psi.Bad) > 0 {
			if key := pickKey(usedF); key >= 0 {
				var t int
				vote := false
				if len(psi.Good) > 0 && (len(psi.Bad) == 0 || r.Bool()) {
					t = w.tgtIdx[psi.Good[r.Intn(len(psi.Good))]]
				} else {
					t = w.tgtIdx[psi.Bad[r.Intn(len(psi.Bad))]]
					vote = true
				}
				if r.Chance(1, 4) {
					vote = !vote
				}
				b.fs = append(b.fs, faultD{target: t, vote: vote, key: key, sig: sigD{key: key, kind: kindOf(vote), target: t}})
				w.sortFaults(b.fs)
				name = "fault-for-earlier-verdict"
			}
		}
	default: // empty extrinsic
		b.vs, b.cs, b.fs = nil, nil, nil
		name = "empty-extrinsic"
	}
	st.Inc("deviation-" + name)
	return b
}

func permOf(r *h.Rng, n int) []int {
	p := make([]int, n)
	for i := range p {
		p[i] = i
	}
	for i := n - 1; i > 0; i-- {
		j := r.Intn(i + 1)
		p[i], p[j] = p[j], p[i]
	}
	return p
}

func gen(rng *h.Rng, tier string, emit func(string)) {
	st := h.Stats{}
	mult := 1
	if tier == "thorough" {
		mult = 12
	}
	one := func(V, C, E, nb int, kind string) {
		r := rng.Fork()
		seed := r.U64() >> 16
		nsets := 3
		nkeys := V*2 + V/2 + 3
		if V > 100 {
			nkeys = V + V/3 + 3
		}
		nreports := 3*nb + C
		ntargets := nreports + 6
		w := newWorld(V, C, E, seed, nkeys, ntargets, nreports)
		// validator sets: consecutive sets overlap in some keys
		for s := 0; s < nsets; s++ {
			p := permOf(r, nkeys)
			set := append([]int{}, p[:V]...)
			if s > 0 {
				for i := 0; i < V/3; i++ {
					set[i] = w.sets[s-1][(i*2)%V]
				}
				// keep the keys of one set distinct
				seen := map[int]bool{}
				nxt := 0
				for i := range set {
					for seen[set[i]] {
						set[i] = p[(V+nxt)%nkeys]
						nxt++
					}
					seen[set[i]] = true
				}
			}
			w.sets = append(w.sets, set)
		}
		// prior state: a few judged reports (sorted), a few offenders (sorted), some pending reports
		var g0, b0, w0, o0 []int
		tp := permOf(r, ntargets)
		ng0, nb0, nw0 := r.Intn(3), r.Intn(3), r.Intn(2)
		g0 = append(g0, tp[:ng0]...)
		b0 = append(b0, tp[ng0:ng0+nb0]...)
		w0 = append(w0, tp[ng0+nb0:ng0+nb0+nw0]...)
		byT := func(l []int) {
			sort.Slice(l, func(i, j int) bool { return bytes.Compare(w.targets[l[i]][:], w.targets[l[j]][:]) < 0 })
		}
		byT(g0)
		byT(b0)
		byT(w0)
		no0 := r.Intn(3)
		kp := permOf(r, nkeys)
		o0 = append(o0, kp[:no0]...)
		sort.Slice(o0, func(i, j int) bool { return bytes.Compare(w.pub[o0[i]][:], w.pub[o0[j]][:]) < 0 })
		judged := map[int]bool{}
		for _, l := range [][]int{g0, b0, w0} {
			for _, t := range l {
				judged[t] = true
			}
		}
		rho0 := make([]int, C)
		for c := range rho0 {
			rho0[c] = -1
			if r.Chance(2, 3) || C > 16 && r.Chance(1, 50) {
				t := r.Intn(nreports)
				if !judged[t] {
					rho0[c] = t
					judged[t] = true // not twice
				}
			}
			if C > 16 && !r.Chance(1, 40) {
				rho0[c] = -1
			}
		}
		var sb strings.Builder
		fmt.Fprintf(&sb, "%d %d %d %d %d %d %d %d %d KT", V, C, E, seed, nkeys, ntargets, nreports, nsets, nb)
		for _, p := range w.pub {
			sb.WriteString(" " + h.Hex(p[:]))
		}
		sb.WriteString(" TT")
		for _, t := range w.targets {
			sb.WriteString(" " + h.Hex(t[:]))
		}
		sb.WriteString(" KS")
		for _, set := range w.sets {
			for _, k := range set {
				fmt.Fprintf(&sb, " %d", k)
			}
		}
		rtok := make([]string, C)
		for c, t := range rho0 {
			rtok[c] = "-"
			if t >= 0 {
				rtok[c] = strconv.Itoa(t)
			}
		}
		fmt.Fprintf(&sb, " S G %s B %s W %s O %s R %s", idxList(g0), idxList(b0), idxList(w0), idxList(o0), strings.Join(rtok, " "))
		s := newSession(w, g0, b0, w0, o0, rho0)
		ep := uint32(r.Intn(4))
		if r.Chance(1, 8) {
			ep = 0
		}
		tau := ep*uint32(E) + uint32(r.Intn(E))
		kset, lset := 1, 0
		for i := 0; i < nb; i++ {
			if r.Chance(1, 5) {
				tau = (tau/uint32(E) + 1) * uint32(E) // next epoch: the sets rotate
				lset = kset
				kset = (kset + 1) % nsets
				st.Inc("epoch-rotation")
			} else {
				tau += uint32(1 + r.Intn(2))
			}
			// stay within the epoch unless rotating
			blk := s.genBlock(r, tau, kset, lset, st)
			ok, _ := s.apply(blk)
			if ok {
				st.Inc("block-accepted-by-impl")
			} else {
				st.Inc("block-rejected-by-impl")
			}
			sb.WriteString(" " + blk.render())
			st.Inc("blocks")
		}
		emit(sb.String())
		st.Inc("case-" + kind)
	}
	for i := 0; i < 260*mult; i++ {
		one(6, 2, 12, 6+rng.Intn(14), "tiny-V6")
	}
	for i := 0; i < 120*mult; i++ {
		V := []int{3, 4, 5, 7, 8, 9, 10, 12, 15}[rng.Intn(9)]
		one(V, 1+rng.Intn(5), 4+rng.Intn(10), 5+rng.Intn(10), fmt.Sprintf("V%d", V))
	}
	for i := 0; i < 2*mult; i++ {
		one(1023, 341, 600, 4, "full-V1023")
	}
	h.EmitStats(emit, st)
}

func run(input string) string {
	f := strings.Fields(input)
	V, C, E := h.I(f[0]), h.I(f[1]), h.I(f[2])
	seed := h.U(f[3])
	nkeys, ntargets, nreports, nsets, nb := h.I(f[4]), h.I(f[5]), h.I(f[6]), h.I(f[7]), h.I(f[8])
	types.SetTinyMode()
	types.CoresCount = C
	w := newWorld(V, C, E, seed, nkeys, ntargets, nreports)
	pos := 9
	expect := func(s string) {
		if f[pos] != s {
			panic("verifh: expected " + s)
		}
		pos++
	}
	expect("KT")
	for i := 0; i < nkeys; i++ {
		if h.Hex(w.pub[i][:]) != f[pos] {
			panic("verifh: key table differs from the derived keys")
		}
		pos++
	}
	expect("TT")
	for i := 0; i < ntargets; i++ {
		if h.Hex(w.targets[i][:]) != f[pos] {
			panic("verifh: target table differs from the derived report hashes")
		}
		pos++
	}
	expect("KS")
	for s := 0; s < nsets; s++ {
		set := make([]int, V)
		for i := range set {
			set[i] = h.I(f[pos])
			pos++
		}
		w.sets = append(w.sets, set)
	}
	expect("S")
	expect("G")
	g0 := parseIdx(f[pos])
	pos++
	expect("B")
	b0 := parseIdx(f[pos])
	pos++
	expect("W")
	w0 := parseIdx(f[pos])
	pos++
	expect("O")
	o0 := parseIdx(f[pos])
	pos++
	expect("R")
	rho0 := make([]int, C)
	for c := range rho0 {
		rho0[c] = -1
		if f[pos] != "-" {
			rho0[c] = h.I(f[pos])
		}
		pos++
	}
	s := newSession(w, g0, b0, w0, o0, rho0)
	outs := make([]string, 0, nb)
	for i := 0; i < nb; i++ {
		blk := parseBlock(f, &pos)
		_, out := s.apply(blk)
		outs = append(outs, out)
	}
	return strings.Join(outs, " / ") + " # alias=" + s.alias()
}

func main() {
	os.Setenv("JAM_FUZZ", "1") // in-memory repositories only
	logger.Disable()
	h.Main(gen, run)
}
