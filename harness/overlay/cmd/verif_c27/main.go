//go:build verif

// C27 harness: one case = one whole operation history run on one database provider.
//
// input  :  <provider> <op> <op> ...        provider = mem | pebble | redis
//   ops  :  P:<k>:<v>  D:<k>  G:<k>  H:<k>           direct Put / Delete / Get / Has
//           N                                       NewBatch (batches are numbered 0,1,2.. in creation order)
//           BP:<b>:<k>:<v>  BD:<b>:<k>  BC:<b>  BX:<b>   batch Put / Delete / Commit / Close
//           I:<prefix>:<start>                      NewIterator, drained with Next/Key/Value, closed
//           (all byte strings in hex, "-" = empty)
// output :  one token per op:  ok | err | =<hex> | nil | T | F | b<n> | [k:v,k:v,...] | bad
//           followed by  stale=<list>  : indices of ops whose returned byte slices (Get results, iterator
//           keys/values) no longer hold the bytes they held when returned; "-" when none changed.
//
// Every key/value/prefix/start buffer handed to the provider is a fresh private buffer which is
// overwritten (every byte XOR 0xFF) as soon as the call returns, so a provider that keeps the caller's
// slice sees garbage later. Slices returned by Get are re-read at the very end of the history; slices
// returned by an iterator are re-read inside their documented validity window (until the next Next())
// after a later write to the same key (the value is overwritten, the slices compared, the value restored;
// this leaves the store unchanged), see notes/C27.md.
// A batch may be used until Commit or Close; after Commit only Close is allowed. Ops addressed to a batch
// that does not exist or is finished are answered "bad" without calling the provider (the model does the same).
package main

import (
	"bytes"
	"fmt"
	"os"
	"regexp"
	"sort"
	"strconv"
	"strings"

	"github.com/New-JAMneration/JAM-Protocol/internal/database"
	"github.com/New-JAMneration/JAM-Protocol/internal/database/provider/memory"
	pebbledb "github.com/New-JAMneration/JAM-Protocol/internal/database/provider/pebble"
	redisdb "github.com/New-JAMneration/JAM-Protocol/internal/database/provider/redis"
	h "github.com/New-JAMneration/JAM-Protocol/internal/verifh"
	"github.com/alicebob/miniredis/v2"
)

// ---------------------------------------------------------------------------------------------
// providers

var mr *miniredis.Miniredis

// Pebble runs on a real directory (default file system, WAL, manifest): one fresh temp dir per history, removed
// when the history ends. A memory-backed tmpfs is preferred when present (fsync is free there).
func tmpBase() string {
	if d := os.Getenv("VERIF_TMPDIR"); d != "" {
		return d
	}
	if fi, err := os.Stat("/dev/shm"); err == nil && fi.IsDir() {
		if f, err := os.CreateTemp("/dev/shm", "verif_c27_probe_"); err == nil {
			f.Close()
			os.Remove(f.Name())
			return "/dev/shm"
		}
	}
	return ""
}

func openProvider(name string) (database.Database, func()) {
	switch name {
	case "mem":
		db := memory.NewDatabase()
		return db, func() { db.Close() }
	case "pebble":
		dir, err := os.MkdirTemp(tmpBase(), "verif_c27_")
		if err != nil {
			panic("verifh: mkdirtemp " + err.Error())
		}
		db, err := pebbledb.NewDatabase(dir, false)
		if err != nil {
			os.RemoveAll(dir)
			panic("verifh: pebble open " + err.Error())
		}
		return db, func() { db.Close(); os.RemoveAll(dir) }
	case "redis":
		if mr == nil {
			var err error
			mr, err = miniredis.Run()
			if err != nil {
				panic("verifh: miniredis " + err.Error())
			}
		}
		mr.FlushAll() // server side, independent of the provider under test
		db := redisdb.NewDatabase(mr.Addr(), "", 0)
		return db, func() { db.Close() }
	}
	panic("verifh: unknown provider " + name)
}

// ---------------------------------------------------------------------------------------------
// running one history

func buf(tok string) []byte {
	b := h.UnHex(tok)
	c := make([]byte, len(b), len(b)+3) // spare capacity: an append by the callee must not matter either
	copy(c, b)
	return c
}

func scramble(b []byte) {
	for i := range b {
		b[i] ^= 0xFF
	}
}

func clone(b []byte) []byte {
	c := make([]byte, len(b))
	copy(c, b)
	return c
}

func okerr(err error) string {
	if err != nil {
		return "err"
	}
	return "ok"
}

type retained struct {
	op   int
	raw  []byte // the slice the provider returned
	want []byte // private copy taken at the time
}

const (
	bLive = iota
	bCommitted
	bClosed
)

func runHistory(db database.Database, ops []string) string {
	outs := make([]string, 0, len(ops)+1)
	var rets []retained
	staleSet := map[int]bool{}
	var batches []database.Batch
	var bstate []int
	getBatch := func(tok string, allowCommitted bool) int {
		b, err := strconv.Atoi(tok)
		if err != nil || b < 0 || b >= len(batches) {
			return -1
		}
		if bstate[b] == bLive || (allowCommitted && bstate[b] == bCommitted) {
			return b
		}
		return -1
	}
	for i, tok := range ops {
		p := strings.Split(tok, ":")
		var out string
		switch p[0] {
		case "P":
			k, v := buf(p[1]), buf(p[2])
			err := db.Put(k, v)
			scramble(k)
			scramble(v)
			out = okerr(err)
		case "D":
			k := buf(p[1])
			err := db.Delete(k)
			scramble(k)
			out = okerr(err)
		case "G":
			k := buf(p[1])
			v, found, err := db.Get(k)
			scramble(k)
			switch {
			case err != nil:
				out = "err"
			case !found:
				out = "nil"
			default:
				out = "=" + h.Hex(v)
				rets = append(rets, retained{i, v, clone(v)})
			}
		case "H":
			k := buf(p[1])
			found, err := db.Has(k)
			scramble(k)
			switch {
			case err != nil:
				out = "err"
			case found:
				out = "T"
			default:
				out = "F"
			}
		case "N":
			batches = append(batches, db.NewBatch())
			bstate = append(bstate, bLive)
			out = fmt.Sprintf("b%d", len(batches)-1)
		case "BP":
			b := getBatch(p[1], false)
			if b < 0 {
				out = "bad"
				break
			}
			k, v := buf(p[2]), buf(p[3])
			err := batches[b].Put(k, v)
			scramble(k)
			scramble(v)
			out = okerr(err)
		case "BD":
			b := getBatch(p[1], false)
			if b < 0 {
				out = "bad"
				break
			}
			k := buf(p[2])
			err := batches[b].Delete(k)
			scramble(k)
			out = okerr(err)
		case "BC":
			b := getBatch(p[1], false)
			if b < 0 {
				out = "bad"
				break
			}
			out = okerr(batches[b].Commit())
			bstate[b] = bCommitted
		case "BX":
			b := getBatch(p[1], true)
			if b < 0 {
				out = "bad"
				break
			}
			out = okerr(batches[b].Close())
			bstate[b] = bClosed
		case "I":
			pb, sb := buf(p[1]), buf(p[2])
			it, err := db.NewIterator(pb, sb)
			scramble(pb)
			scramble(sb)
			if err != nil {
				out = "err"
				break
			}
			var items []string
			bad := false
			for n := 0; it.Next(); n++ {
				if n > 4096 {
					bad = true
					break
				}
				k, v := it.Key(), it.Value()
				kc, vc := clone(k), clone(v)
				items = append(items, h.Hex(kc)+":"+h.Hex(vc))
				// a later write to the same key while the slices are still valid
				tk, tv := clone(kc), append(clone(vc), 0x5A)
				e1 := db.Put(tk, tv)
				scramble(tk)
				scramble(tv)
				if !bytes.Equal(k, kc) || !bytes.Equal(v, vc) {
					staleSet[i] = true
				}
				tk, tv = clone(kc), clone(vc)
				e2 := db.Put(tk, tv)
				scramble(tk)
				scramble(tv)
				if e1 != nil || e2 != nil {
					bad = true
				}
			}
			if it.Error() != nil || bad {
				out = "err"
			} else {
				out = "[" + strings.Join(items, ",") + "]"
			}
			if it.Close() != nil {
				out = "err"
			}
		default:
			panic("verifh: bad op " + tok)
		}
		outs = append(outs, out)
	}
	// end of history: every slice returned by Get must still hold what it held
	for _, r := range rets {
		if !bytes.Equal(r.raw, r.want) {
			staleSet[r.op] = true
		}
	}
	for b := range batches { // release resources (not an observable)
		if bstate[b] != bClosed {
			batches[b].Close()
		}
	}
	st := "-"
	if len(staleSet) > 0 {
		idx := make([]int, 0, len(staleSet))
		for i := range staleSet {
			idx = append(idx, i)
		}
		sort.Ints(idx)
		parts := make([]string, len(idx))
		for j, i := range idx {
			parts[j] = strconv.Itoa(i)
		}
		st = strings.Join(parts, ",")
	}
	outs = append(outs, "stale="+st)
	return strings.Join(outs, " ")
}

func run(input string) string {
	f := strings.Fields(input)
	db, cleanup := openProvider(f[0])
	defer cleanup()
	return runHistory(db, f[1:])
}

// ---------------------------------------------------------------------------------------------
// generator

var alphabet = []byte{0x00, 0xFF, 'a', 'b', '*', '?', '[', ']', '\\', '^', '-'}

type caseGen struct {
	rng  *h.Rng
	sub  []byte
	pool [][]byte
	used map[string]bool
	st   h.Stats
}

func (g *caseGen) sym() byte { return g.sub[g.rng.Intn(len(g.sub))] }

func (g *caseGen) word(maxLen int) []byte {
	n := g.rng.Intn(maxLen + 1)
	b := make([]byte, n)
	for i := range b {
		b[i] = g.sym()
	}
	return b
}

func (g *caseGen) key() []byte {
	var k []byte
	if len(g.pool) > 0 && g.rng.Chance(4, 5) {
		k = g.pool[g.rng.Intn(len(g.pool))]
	} else {
		k = g.word(3)
	}
	g.used[string(k)] = true
	return k
}

func (g *caseGen) value(i int) []byte {
	switch g.rng.Intn(10) {
	case 0:
		return nil
	case 1:
		return []byte{byte(g.rng.Intn(256))}
	default:
		return []byte{byte(i), byte(g.rng.Intn(256))}
	}
}

func isPrefix(p, k []byte) bool { return bytes.HasPrefix(k, p) }

// prefix/start pairs: start empty, start completing an existing key, start unrelated to every key
// (neither a prefix of a key remainder nor extended by one), prefix that is / is not a prefix of keys
func (g *caseGen) prefixStart() ([]byte, []byte) {
	var p, s []byte
	base := g.pool[g.rng.Intn(len(g.pool))]
	switch g.rng.Intn(6) {
	case 0:
		p = nil
	case 1, 2, 3:
		p = base[:g.rng.Intn(len(base)+1)]
	default:
		p = g.word(2)
	}
	switch g.rng.Intn(6) {
	case 0:
		s = nil
	case 1, 2:
		// remainder of some key that has the prefix (possibly cut or extended)
		var cands [][]byte
		for _, k := range g.pool {
			if isPrefix(p, k) {
				cands = append(cands, k[len(p):])
			}
		}
		if len(cands) > 0 {
			r := cands[g.rng.Intn(len(cands))]
			s = append([]byte{}, r[:g.rng.Intn(len(r)+1)]...)
			if g.rng.Chance(1, 3) {
				s = append(s, g.sym())
			}
		} else {
			s = g.word(2)
		}
	default:
		s = g.word(3)
	}
	kind := "start-other"
	if len(s) == 0 {
		kind = "start-empty"
	} else {
		ps := append(append([]byte{}, p...), s...)
		anyPref := false
		for _, k := range g.pool {
			if isPrefix(ps, k) {
				anyPref = true
			}
		}
		if anyPref {
			kind = "start-prefix-of-key"
		} else {
			kind = "start-not-prefix-of-any-key"
		}
	}
	g.st.Inc("iter-" + kind)
	if len(p) == 0 {
		g.st.Inc("iter-prefix-empty")
	}
	return p, s
}

func genCase(rng *h.Rng, st h.Stats, maxOps int) string {
	g := &caseGen{rng: rng, used: map[string]bool{}, st: st}
	// sub-alphabet of 2..4 symbols, usually with a glob metacharacter or 00/ff
	perm := append([]byte{}, alphabet...)
	for i := len(perm) - 1; i > 0; i-- {
		j := rng.Intn(i + 1)
		perm[i], perm[j] = perm[j], perm[i]
	}
	g.sub = perm[:2+rng.Intn(3)]
	npool := 2 + rng.Intn(6)
	for i := 0; i < npool; i++ {
		g.pool = append(g.pool, g.word(3))
	}
	if rng.Chance(1, 4) {
		g.pool = append(g.pool, []byte{})
	}
	n := 3 + rng.Intn(maxOps-2)
	var ops []string
	nb := 0
	live := []int{}
	committed := []int{}
	pickLive := func() (int, bool) {
		if len(live) == 0 {
			return 0, false
		}
		return live[rng.Intn(len(live))], true
	}
	remove := func(l []int, b int) []int {
		o := l[:0]
		for _, x := range l {
			if x != b {
				o = append(o, x)
			}
		}
		return o
	}
	for i := 0; i < n; i++ {
		r := rng.Intn(100)
		switch {
		case r < 22:
			ops = append(ops, "P:"+h.Hex(g.key())+":"+h.Hex(g.value(i)))
			st.Inc("op-put")
		case r < 30:
			ops = append(ops, "D:"+h.Hex(g.key()))
			st.Inc("op-del")
		case r < 42:
			ops = append(ops, "G:"+h.Hex(g.key()))
			st.Inc("op-get")
		case r < 47:
			ops = append(ops, "H:"+h.Hex(g.key()))
			st.Inc("op-has")
		case r < 54:
			ops = append(ops, "N")
			live = append(live, nb)
			nb++
			st.Inc("op-newbatch")
		case r < 68:
			if b, ok := pickLive(); ok {
				ops = append(ops, fmt.Sprintf("BP:%d:%s:%s", b, h.Hex(g.key()), h.Hex(g.value(i))))
				st.Inc("op-bput")
			}
		case r < 73:
			if b, ok := pickLive(); ok {
				ops = append(ops, fmt.Sprintf("BD:%d:%s", b, h.Hex(g.key())))
				st.Inc("op-bdel")
			}
		case r < 79:
			if b, ok := pickLive(); ok {
				ops = append(ops, fmt.Sprintf("BC:%d", b))
				live = remove(live, b)
				committed = append(committed, b)
				st.Inc("op-bcommit")
			}
		case r < 82:
			if b, ok := pickLive(); ok {
				ops = append(ops, fmt.Sprintf("BX:%d", b))
				live = remove(live, b)
				st.Inc("op-bclose-discard")
			} else if len(committed) > 0 {
				b := committed[0]
				committed = committed[1:]
				ops = append(ops, fmt.Sprintf("BX:%d", b))
				st.Inc("op-bclose-after-commit")
			}
		case r < 83:
			// addressed to a batch that is finished or does not exist: answered "bad" on both sides
			b := rng.Intn(nb + 2)
			isLive := false
			for _, x := range live {
				if x == b {
					isLive = true
				}
			}
			if !isLive {
				switch rng.Intn(4) {
				case 0:
					ops = append(ops, fmt.Sprintf("BP:%d:%s:%s", b, h.Hex(g.key()), h.Hex(g.value(i))))
				case 1:
					ops = append(ops, fmt.Sprintf("BD:%d:%s", b, h.Hex(g.key())))
				case 2:
					ops = append(ops, fmt.Sprintf("BC:%d", b))
				default:
					// Close of a committed batch is legal (once); of a closed or absent batch it is not
					ops = append(ops, fmt.Sprintf("BX:%d", b))
					committed = remove(committed, b)
				}
				st.Inc("op-on-finished-or-absent-batch")
			}
		default:
			p, s := g.prefixStart()
			ops = append(ops, "I:"+h.Hex(p)+":"+h.Hex(s))
			st.Inc("op-iter")
		}
	}
	// tail: read back every key that was ever named, and its scrambled image (where a provider that kept a
	// caller buffer would have written), then the whole store
	keys := make([]string, 0, 2*len(g.used))
	seen := map[string]bool{}
	for k := range g.used {
		for _, x := range []string{k, string(scrambled([]byte(k)))} {
			if !seen[x] {
				seen[x] = true
				keys = append(keys, x)
			}
		}
	}
	sort.Strings(keys)
	for _, k := range keys {
		ops = append(ops, "G:"+h.Hex([]byte(k)))
	}
	ops = append(ops, "I:-:-")
	st.Inc(fmt.Sprintf("history-len-%02d+", (len(ops)/10)*10))
	return strings.Join(ops, " ")
}

func scrambled(b []byte) []byte {
	c := clone(b)
	scramble(c)
	return c
}

// standinParses re-implements miniredis' glob-to-regexp translation (keys.go: patternRE) with Compile in place of
// MustCompile. miniredis panics in its server goroutine (killing this process) on a MATCH pattern it cannot
// translate: bytes that are not UTF-8, or a malformed character class such as "[--*]". A real Redis server has
// neither limitation. A provider may send prefix+start unquoted (the code as found) or quoted, so a history is
// replayed on the Redis provider only when the unquoted bounds of every iterator are translatable.
func standinParses(k string) bool {
	re := bytes.Buffer{}
	re.WriteString(`(?s)^\Q`)
	for i := 0; i < len(k); i++ {
		p := k[i]
		switch p {
		case '*':
			re.WriteString(`\E.*\Q`)
		case '?':
			re.WriteString(`\E.\Q`)
		case '[':
			charClass := bytes.Buffer{}
			i++
			for ; i < len(k); i++ {
				if k[i] == ']' {
					break
				}
				if k[i] == '\\' {
					if i == len(k)-1 {
						return true
					}
					charClass.WriteByte(k[i])
					i++
					charClass.WriteByte(k[i])
					continue
				}
				charClass.WriteByte(k[i])
			}
			if charClass.Len() == 0 {
				return true
			}
			re.WriteString(`\E[`)
			re.Write(charClass.Bytes())
			re.WriteString(`]\Q`)
		case '\\':
			if i == len(k)-1 {
				return true
			}
			i++
			re.WriteByte(k[i])
			continue
		default:
			re.WriteByte(p)
		}
	}
	re.WriteString(`\E$`)
	_, err := regexp.Compile(re.String())
	return err == nil
}

func globQuote(s []byte) string {
	var b strings.Builder
	for _, c := range s {
		switch c {
		case '*', '?', '[', ']', '\\':
			b.WriteByte('\\')
		}
		b.WriteByte(c)
	}
	return b.String()
}

func redisReplayable(hist string) bool {
	for _, tok := range strings.Fields(hist) {
		if strings.HasPrefix(tok, "I:") {
			p := strings.Split(tok, ":")
			pre, st := h.UnHex(p[1]), h.UnHex(p[2])
			if !standinParses(string(pre)+string(st)+"*") || !standinParses(globQuote(pre)+"*") {
				return false
			}
		}
	}
	return true
}

func gen(rng *h.Rng, tier string, emit func(string)) {
	st := h.Stats{}
	nMem, nPebble, nRedis, maxOps := 20000, 1000, 6000, 36
	if tier == "thorough" {
		nMem, nPebble, nRedis, maxOps = 300000, 15000, 120000, 60
	}
	for i := 0; i < nMem; i++ {
		hist := genCase(rng.Fork(), st, maxOps)
		emit("mem " + hist)
		st.Inc("cases-mem")
		if i < nPebble {
			emit("pebble " + hist)
			st.Inc("cases-pebble")
		}
		if i < nRedis {
			if redisReplayable(hist) {
				emit("redis " + hist)
				st.Inc("cases-redis")
			} else {
				st.Inc("cases-redis-skipped-standin-cannot-parse-bounds")
			}
		}
	}
	// targeted: prefixes ending in 0xff (the exclusive upper bound of the prefix range carries into the
	// previous byte) with the successor key itself stored
	for _, x := range []byte{0x61, 0x00, 0xfe, 0x2a, 0x5b} {
		keys := [][]byte{{x}, {x, 0xff}, {x, 0xff, 0x00}, {x, 0xff, 0xff}, {x + 1}, {x + 1, 0x00}, {x, 0xfe}, {x, 0xff, 0xff, 0x01}}
		prefixes := [][]byte{{x, 0xff}, {x, 0xff, 0xff}, {0xff}, {x}, {x + 1}, {0xff, 0xff}}
		starts := [][]byte{{}, {0xff}, {0x00}, {0xff, 0xff}}
		for rep := 0; rep < 4; rep++ {
			var ops []string
			for i, k := range keys {
				if rep > 0 && rng.Chance(1, 4) {
					continue
				}
				ops = append(ops, "P:"+h.Hex(k)+":"+h.Hex([]byte{byte(i + 1)}))
			}
			for _, pf := range prefixes {
				for _, sx := range starts {
					if rep > 0 && rng.Chance(1, 2) {
						continue
					}
					ops = append(ops, "I:"+h.Hex(pf)+":"+h.Hex(sx))
				}
			}
			hist := strings.Join(ops, " ")
			for _, prov := range []string{"mem", "pebble", "redis"} {
				if prov == "redis" && !redisReplayable(hist) {
					continue
				}
				emit(prov + " " + hist)
				st.Inc("cases-ff-carry-" + prov)
			}
		}
	}
	h.EmitStats(emit, st)
}

func main() { h.Main(gen, run) }
