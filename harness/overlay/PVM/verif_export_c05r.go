//go:build verif && vi_pvm_c05r

package PVM

// VerifIsReadable / VerifIsWriteable expose the host-call range tests (overlay only).
func VerifIsReadable(start, length uint64, m Memory) bool  { return isReadable(start, length, m) }
func VerifIsWriteable(start, length uint64, m Memory) bool { return isWriteable(start, length, m) }
