//go:build verif && vi_pvm_c03

package PVM

// Overlay-only helpers of the C03 harness (add-only; nothing here is compiled without -tags verif).

// VerifC03Blocks counts the basic-block table entries of a deblobbed program.
func VerifC03Blocks(p *Program) int {
	n := 0
	for _, b := range p.BlockAt {
		if b != nil {
			n++
		}
	}
	return n
}

// VerifC03NewMemory builds an empty guest memory.
func VerifC03NewMemory() *Memory {
	return &Memory{Pages: make(map[uint32]*Page)}
}
