//go:build verif

package PVM

// Overlay-only helpers of the C03 harness (add-only; nothing here is compiled without -tags verif).

// VerifC03Djump runs the dynamic-jump table lookup of a deblobbed program for the jump address a.
func VerifC03Djump(p *Program, a uint32) (ExitReason, ProgramCounter) {
	return djump(0, a, p.JumpTable, p.Bitmasks)
}

// VerifC03Blocks counts the basic-block table entries of a deblobbed program.
func VerifC03Blocks(p *Program) int {
	n := 0
	for _, b := range p.BlockAt {
		if b != nil {
			n++
		}
	}
	return n
}

// VerifC03NewMemory builds an empty guest memory.
func VerifC03NewMemory() *Memory {
	return &Memory{Pages: make(map[uint32]*Page)}
}
