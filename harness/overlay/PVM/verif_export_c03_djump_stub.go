//go:build verif && !vi_pvm_c03_djump

package PVM

// VerifC03Djump (STUB: built when the unexported djump is gone under that name / signature).
func VerifC03Djump(p *Program, a uint32) (ExitReason, ProgramCounter) {
	panic("VERIF-UNAVAILABLE: VerifC03Djump")
}
