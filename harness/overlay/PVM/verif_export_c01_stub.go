//go:build verif && !vi_pvm_c01

package PVM

// Overlay-only helpers of the C01/C04/C05 harness: build a Memory with a chosen heap pointer and
// heap limit (unexported fields), and read them back.
func VerifC01NewMemory(heapPointer, heapLimit uint64) *Memory {
	panic("VERIF-UNAVAILABLE: VerifC01NewMemory")
}

func VerifC01Heap(m *Memory) (uint64, uint64) {
	panic("VERIF-UNAVAILABLE: VerifC01Heap")
}
