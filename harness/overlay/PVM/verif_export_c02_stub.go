//go:build verif && !vi_pvm_c02

package PVM

// Overlay-only helper of the C02 harness (add-only, compiled only with the verif tag).

// VerifC02Omega selects the host function exactly as Host.HostCall does once it has the identifier of a
// host-call exit: the table entry, or hostCallException / hostCallOutOfGas when the table has none.
// The C02 harness drives the Psi_H loop itself because Host.HostCall is tied to the block engine.
func VerifC02Omega(omegas Omegas, exit ExitReason, gas Gas) (Omega, OperationType) {
	panic("VERIF-UNAVAILABLE: VerifC02Omega")
}
