//go:build verif && vi_pvm_c06

package PVM

import "sort"

// VerifPages lists the mapped pages of a Memory in ascending page order (overlay only).
func VerifPages(m *Memory) (nums []uint32, acc []int, vals [][]byte) {
	for n := range m.Pages {
		nums = append(nums, n)
	}
	sort.Slice(nums, func(i, j int) bool { return nums[i] < nums[j] })
	for _, n := range nums {
		acc = append(acc, int(m.Pages[n].Access))
		vals = append(vals, m.Pages[n].Value)
	}
	return
}

func VerifHeap(m *Memory) (uint64, uint64) { return verifHeap(m) }
