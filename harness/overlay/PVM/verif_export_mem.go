//go:build verif

package PVM

import (
	"reflect"
	"strings"
	"unsafe"
)

// verifHeapFields returns pointers to the two unexported uint64 bookkeeping fields of Memory (heap pointer, heap limit).
// They are found by type, not by name, so that a rename of the unexported fields does not break the harnesses: the field
// whose name mentions "limit" or "max" is the limit; otherwise declaration order decides (pointer first). If Memory no longer
// has exactly two uint64 fields the helpers panic with VERIF-UNAVAILABLE (the case is then skipped, see check/lib.py).
func verifHeapFields(m *Memory) (hp, hl *uint64) {
	v := reflect.ValueOf(m).Elem()
	t := v.Type()
	var ps []*uint64
	var names []string
	for i := 0; i < v.NumField(); i++ {
		f := v.Field(i)
		if f.Kind() == reflect.Uint64 {
			ps = append(ps, (*uint64)(unsafe.Pointer(f.UnsafeAddr())))
			names = append(names, strings.ToLower(t.Field(i).Name))
		}
	}
	if len(ps) != 2 {
		panic("VERIF-UNAVAILABLE: Memory heap fields")
	}
	isLimit := func(n string) bool { return strings.Contains(n, "limit") || strings.Contains(n, "max") }
	if isLimit(names[0]) && !isLimit(names[1]) {
		return ps[1], ps[0]
	}
	return ps[0], ps[1]
}

func verifNewMemory(heapPointer, heapLimit uint64) *Memory {
	m := &Memory{Pages: make(map[uint32]*Page)}
	if heapPointer != 0 || heapLimit != 0 {
		hp, hl := verifHeapFields(m)
		*hp, *hl = heapPointer, heapLimit
	}
	return m
}

func verifHeap(m *Memory) (uint64, uint64) {
	hp, hl := verifHeapFields(m)
	return *hp, *hl
}
