//go:build verif && !vi_pvm_c07

package PVM


// Overlay-only helpers of the C07 harness (add-only, nothing here is compiled without the verif tag).

// VerifC07Omega selects the host-call function exactly as Host.HostCall does after it has extracted the
// identifier: the table entry, or hostCallException / hostCallOutOfGas when the table has none.
func VerifC07Omega(omegas Omegas, operation OperationType, gas Gas) Omega {
	panic("VERIF-UNAVAILABLE: VerifC07Omega")
}

// VerifC07FetchBlob returns what fetch's selector handlers pick for the selector registers of the input
// (nil, false when they pick nothing). The C07 model abstracts the sixteen selectors to this blob.
func VerifC07FetchBlob(input OmegaInput) ([]byte, bool) {
	panic("VERIF-UNAVAILABLE: VerifC07FetchBlob")
}

// VerifC07Heap reads the unexported heap pointer of an inner machine's memory; VerifC07NewMemory builds an empty
// guest memory (heap pointer and limit 0) for the outer machine of the inner-machine stream.
func VerifC07Heap(m *Memory) uint64 {
	panic("VERIF-UNAVAILABLE: VerifC07Heap")
}
func VerifC07NewMemory() *Memory {
	panic("VERIF-UNAVAILABLE: VerifC07NewMemory")
}
