//go:build verif && vi_pvm_c03_djump

package PVM

// VerifC03Djump runs the dynamic-jump table lookup of a deblobbed program for the jump address a.
func VerifC03Djump(p *Program, a uint32) (ExitReason, ProgramCounter) {
	return djump(0, a, p.JumpTable, p.Bitmasks)
}
