//go:build verif && !vi_pvm_c05r

package PVM

// VerifIsReadable / VerifIsWriteable expose the host-call range tests (overlay only; STUB: built when the unexported helper is gone).
func VerifIsReadable(start, length uint64, m Memory) bool {
	panic("VERIF-UNAVAILABLE: VerifIsReadable")
}
func VerifIsWriteable(start, length uint64, m Memory) bool {
	panic("VERIF-UNAVAILABLE: VerifIsWriteable")
}
