//go:build verif && !vi_pvm_c06

package PVM


// VerifPages lists the mapped pages of a Memory in ascending page order (overlay only).
func VerifPages(m *Memory) (nums []uint32, acc []int, vals [][]byte) {
	panic("VERIF-UNAVAILABLE: VerifPages")
}

func VerifHeap(m *Memory) (uint64, uint64) {
	panic("VERIF-UNAVAILABLE: VerifHeap")
}
