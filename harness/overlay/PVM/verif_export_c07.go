//go:build verif && vi_pvm_c07

package PVM

import "github.com/New-JAMneration/JAM-Protocol/internal/types"

// Overlay-only helpers of the C07 harness (add-only, nothing here is compiled without the verif tag).

// VerifC07Omega selects the host-call function exactly as Host.HostCall does after it has extracted the
// identifier: the table entry, or hostCallException / hostCallOutOfGas when the table has none.
func VerifC07Omega(omegas Omegas, operation OperationType, gas Gas) Omega {
	omega := getOmega(omegas, operation)
	if omega == nil {
		if gas < 0 {
			return hostCallOutOfGas
		}
		return hostCallException
	}
	return omega
}

// VerifC07FetchBlob returns what fetch's selector handlers pick for the selector registers of the input
// (nil, false when they pick nothing). The C07 model abstracts the sixteen selectors to this blob.
func VerifC07FetchBlob(input OmegaInput) ([]byte, bool) {
	idx := input.VM.Registers[10]
	if idx >= uint64(len(fetchHandlers)) {
		return nil, false
	}
	val, err := fetchHandlers[idx](input, types.NewEncoder())
	if err != nil || val == nil {
		return nil, false
	}
	return val, true
}

// VerifC07Heap reads the unexported heap pointer of an inner machine's memory; VerifC07NewMemory builds an empty
// guest memory (heap pointer and limit 0) for the outer machine of the inner-machine stream.
func VerifC07Heap(m *Memory) uint64 { hp, _ := verifHeap(m); return hp }
func VerifC07NewMemory() *Memory    { return &Memory{Pages: make(map[uint32]*Page)} }
