//go:build verif && vi_pvm_c33

package PVM

// Overlay-only helpers of the C33 harness (add-only; nothing here is compiled without the verif tag).

// VerifC33Omega returns the refine host-call function registered for the operation (the entry of the
// real RefineOmegas table that Psi_M / Host.HostCall dispatches on).
func VerifC33Omega(operation OperationType) Omega { return getOmega(RefineOmegas, operation) }

// VerifC33Heap reads the unexported heap pointer / heap limit of an inner machine's memory.
func VerifC33Heap(m *Memory) (uint64, uint64) { return verifHeap(m) }

// VerifC33NewMemory builds an empty guest memory (heap pointer and limit 0) for the outer machine.
func VerifC33NewMemory() *Memory { return &Memory{Pages: make(map[uint32]*Page)} }
