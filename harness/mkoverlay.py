#!/usr/bin/env python3
"""Generate the go build -overlay JSON mapping /verif/harness/overlay/** onto /repo/**.
Nothing is written under /repo."""
import json, os, sys
root = os.path.dirname(os.path.abspath(__file__))
ov = os.path.join(root, "overlay")
repo = os.environ.get("VERIF_REPO", "/repo")
out = sys.argv[1] if len(sys.argv) > 1 else os.path.join(root, "..", ".build", "overlay.json")
rep = {}
for d, _, fs in os.walk(ov):
    for f in fs:
        src = os.path.join(d, f)
        rel = os.path.relpath(src, ov)
        rep[os.path.join(repo, rel)] = src
os.makedirs(os.path.dirname(out), exist_ok=True)
json.dump({"Replace": rep}, open(out, "w"), indent=1)
